//! C01 driver: determinism of whole simulations.
//!
//! * `mk seed=<s> count=<n> out=<scenarios.ndjson>`   seeded scenario generator
//!   (builder settings, 1..5 hosts, one program per host, controller script).
//! * `emit in=<scenarios.ndjson> idx=<i> out=<trace.ndjson>`   run scenario i once
//!   in this (fresh) process and write its complete trace.
//! * `run in=<scenarios.ndjson> out=<dir>`   every scenario is run twice in this
//!   process (traces a, b) and twice in fresh OS processes (`emit`; traces c, d);
//!   per scenario `s<i>_{a,b,c,d}.ndjson`, plus the concatenations
//!   `all_{a,b,c,d}.ndjson` (each scenario preceded by a `scenario` record).
//!
//! A trace holds: every tracing event of target "turmoil" (Send / Delivered /
//! Recv / Drop / Hold / Bind / Crash / step N ... with src / dst / protocol), every
//! program-level observation with the virtual timestamps of the observing host,
//! every controller action, every `Sim::step` / `Sim::run` result with
//! `Sim::elapsed`. All leaf values are written as strings so that TLC compares
//! records of equal shape.
//!
//! The host programs are deterministic themselves: no wall clock, no std hash
//! iteration, no randomness besides what the scenario fixes.

use rand::rngs::SmallRng;
use rand::{Rng, SeedableRng};
use serde_json::{json, Map, Value};
use std::net::{IpAddr, Ipv4Addr, Ipv6Addr};
use std::os::fd::AsRawFd;
use std::time::{Duration, SystemTime};
use tokio::io::{AsyncReadExt, AsyncWriteExt};
use turmoil::io_uring::{opcode, types, AsyncFd, IoUring};
use turmoil::net::{TcpListener, TcpStream, UdpSocket};
use vh::{rec, util};

const UDP_PORT: u16 = 9000;
const TCP_PORT: u16 = 9001;

// ---------------------------------------------------------------------------
// scenario generation

fn mk_scenario(id: u64, seed: u64, forced_seed: Option<u64>) -> Value {
    let mut r = SmallRng::seed_from_u64(seed ^ 0x6465_7465_726d);
    // scenarios 4 and 5 of every batch: IPv4 broadcast family (>= 4 UDP hosts, latency range, 5 with a fail rate)
    let bcast = id == 4 || id == 5;
    let n = if bcast { r.random_range(4..=5usize) } else if forced_seed.is_some() { r.random_range(3..=5usize) } else { r.random_range(1..=5usize) };
    let tick = [1u64, 1, 2, 3, 5][r.random_range(0..5)];
    let lat_min = r.random_range(0..=3u64);
    let lat_max = lat_min + if forced_seed.is_some() || bcast { r.random_range(6..=12u64) } else { r.random_range(0..=12u64) };
    let fail_on = r.random_bool(0.35);
    let fail_on = if id == 5 { true } else if id == 4 { false } else { fail_on };
    let steps = r.random_range(30..=70u64);
    let fams_net = ["udp", "tcp", "none"];
    let fams_loc = ["tokio", "fs", "uring", "fsdur"];
    let mut hosts = Vec::new();
    let fam0 = fams_net[r.random_range(0..2)];
    for h in 0..n {
        let net = if bcast { "udp" } else if n == 1 { fams_net[r.random_range(0..3)] } else if r.random_bool(0.8) { fam0 } else { fams_net[r.random_range(0..3)] };
        let loc = fams_loc[r.random_range(0..4)];
        let mut fsops = Vec::new();
        if loc == "fs" {
            for _ in 0..r.random_range(10..=28) {
                let d = r.random_range(0..2u32);
                let f = r.random_range(0..9u32);
                let g = r.random_range(0..9u32);
                let op = ["mkdir", "write", "write", "twrite", "sync", "syncdir", "rename", "remove", "readdir", "readdir",
                          "read", "tread", "stat", "sleep", "setlen", "treaddir"][r.random_range(0..16)];
                fsops.push(json!({"op": op, "d": d, "f": f, "g": g, "len": r.random_range(1..=40u32), "off": r.random_range(0..=16u32)}));
            }
        }
        hosts.push(json!({
            "name": format!("h{h}"), "net": net, "loc": loc,
            "n": r.random_range(2..=8u32), "gap": r.random_range(1..=7u32), "chunk": r.random_range(1..=24u32),
            // real time the program burns at a few points ("computation"): virtual results must not depend on it
            "work_us": if r.random_bool(0.4) { r.random_range(200..=2500u32) } else { 0 },
            "rbuf": r.random_range(1..=16u32), "tasks": r.random_range(2..=5u32), "batch": r.random_range(2..=10u32),
            "fsops": fsops,
        }));
    }
    let mut ctl = Vec::new();
    let nctl = if n >= 2 { r.random_range(0..=6) } else { r.random_range(0..=2) };
    for _ in 0..nctl {
        let a = r.random_range(0..n);
        let b = if n >= 2 { (a + r.random_range(1..n)) % n } else { a };
        let ops: &[&str] = if n >= 2 {
            &["crash", "bounce", "partition", "repair", "hold", "release", "partition_oneway", "repair_oneway",
              "set_link_latency", "set_max_latency", "curve", "links"]
        } else {
            &["crash", "bounce", "links", "curve"]
        };
        ctl.push(json!({"step": r.random_range(1..steps), "op": ops[r.random_range(0..ops.len())], "a": a, "b": b,
                        "v": r.random_range(0..=9u32)}));
    }
    let fs_sync = [0u32, 0, 30, 100][r.random_range(0..4)];
    let fs_ioerr = [0u32, 0, 10][r.random_range(0..3)];
    let fs_short = [0u32, 0, 50][r.random_range(0..3)];
    let fs_corrupt = [0u32, 0, 20][r.random_range(0..3)];
    let fs_block = [0u32, 0, 4, 16][r.random_range(0..4)];
    let curve = if r.random_bool(0.3) { json!(r.random_range(1..=9u32)) } else { Value::Null };
    let fail = if fail_on { r.random_range(1..=30u32) } else { 0 };
    let repair = if fail_on { r.random_range(10..=100u32) } else { 100 };
    // durability pattern: a host with fs activity is crashed and bounced; its next incarnation starts by
    // listing its directories (orphaned / durable inodes interleaved in creation order)
    for (h, hv) in hosts.iter().enumerate() {
        let loc = hv["loc"].as_str().unwrap_or("");
        if loc == "fsdur" || (loc == "fs" && r.random_bool(0.5)) {
            let s1 = r.random_range(4..=14u64);
            ctl.push(json!({"step": s1, "op": "crash", "a": h, "b": h, "v": 0}));
            ctl.push(json!({"step": s1 + r.random_range(1..=4u64), "op": "bounce", "a": h, "b": h, "v": 0}));
        }
    }
    // hold, traffic piles up, then a stalled release or manual delivery (early, so that a stall of
    // "virtual time so far + a few ticks" of real time stays short)
    if n >= 2 && r.random_bool(0.6) {
        let a = r.random_range(0..n);
        let b = (a + 1) % n; // the first peer of a: its UDP / TCP target
        let s1 = r.random_range(1..=4u64);
        let s2 = s1 + r.random_range(3..=8u64);
        let stall = (s2 * tick + r.random_range(2..=5u64) * tick) * 1000;
        ctl.push(json!({"step": s1, "op": "hold", "a": a, "b": b, "v": 0}));
        if r.random_bool(0.5) {
            ctl.push(json!({"step": s2, "op": "release", "a": a, "b": b, "v": 0, "stall_us": stall}));
        } else {
            ctl.push(json!({"step": s2, "op": "deliver", "a": a, "b": b, "v": 0, "stall_us": stall}));
            ctl.push(json!({"step": s2 + r.random_range(2..=6u64), "op": "release", "a": a, "b": b, "v": 0, "stall_us": stall / 2}));
        }
    }
    // boundary seeds are always part of the sample: the first scenarios of every batch use 0 and u64::MAX
    let world_seed = match forced_seed { Some(x) => x, None => r.random::<u32>() as u64 };
    json!({
        "id": id, "seed": world_seed, "epoch_s": 1_600_000_000u64 + r.random_range(0..1000u64),
        "tick_ms": tick, "lat_min_ms": lat_min, "lat_max_ms": lat_max,
        "curve": curve,
        "fail": fail,     // percent
        "repair": repair, // percent
        "random_order": r.random_bool(0.5) || forced_seed.is_some(),
        "tcp_cap": r.random_range(1..=64u32), "udp_cap": r.random_range(1..=64u32),
        "ipv6": r.random_bool(0.3) && !bcast,
        "fs": {
            "sync_p": fs_sync, "io_err_p": fs_ioerr, "short_read_p": fs_short, "corrupt_p": fs_corrupt,
            "lat_min_us": r.random_range(10..=500u32), "lat_extra_us": r.random_range(0..=4000u32),
            "block": fs_block,
        },
        // the one client never finishes in a third of the scenarios: Sim::run then ends with the
        // "ran out of simulated time" error, whose text is part of the final result that is compared
        "endless": id % 3 == 2,
        "steps": steps, "hosts": hosts, "ctl": ctl,
    })
}

// ---------------------------------------------------------------------------
// observations

fn obs(h: &str, what: &str, v: Value) {
    let at = turmoil::elapsed().as_micros() as u64;
    let sim = turmoil::sim_elapsed().map(|d| d.as_micros() as u64).unwrap_or(0);
    rec::emit(json!({"ev":"obs","h":h,"what":what,"at":at,"sim":sim,"v":v}));
}

thread_local! {
    /// Index of this execution among the four of a scenario (a=0, b=1, c=2, d=3). It scales the REAL time
    /// the programs / the controller burn: how fast the process runs is not an input of the simulation, so
    /// the four executions deliberately differ in it (and in nothing else).
    static RUN_K: std::cell::Cell<u64> = const { std::cell::Cell::new(0) };
}

fn real_sleep(us: u64) {
    let k = RUN_K.with(|c| c.get());
    // run a: half, b: as scripted, c: double, d: none
    let us = match k { 0 => us / 2, 1 => us, 2 => us * 2, _ => 0 };
    if us > 0 {
        std::thread::sleep(Duration::from_micros(us));
    }
}

/// Burn real time (no clock is read): stands for computation whose duration varies from run to run.
fn work(p: &Value) {
    real_sleep(u(p, "work_us"));
}

fn ek<T>(r: &std::io::Result<T>) -> String {
    match r {
        Ok(_) => "ok".into(),
        Err(e) => format!("{:?}", e.kind()),
    }
}

fn u(v: &Value, k: &str) -> u64 {
    v[k].as_u64().unwrap_or(0)
}

fn unspec(v6: bool) -> IpAddr {
    if v6 { IpAddr::V6(Ipv6Addr::UNSPECIFIED) } else { IpAddr::V4(Ipv4Addr::UNSPECIFIED) }
}

// ---------------------------------------------------------------------------
// program families

async fn prog_udp(me: String, hid: u8, peers: Vec<String>, p: Value, v6: bool) {
    let sock = match UdpSocket::bind((unspec(v6), UDP_PORT)).await {
        Ok(s) => s,
        Err(e) => {
            obs(&me, "udp_bind", json!(format!("{:?}", e.kind())));
            return;
        }
    };
    obs(&me, "udp_bind", json!(format!("{:?}", sock.local_addr().ok())));
    if !v6 {
        let b = sock.set_broadcast(true);
        obs(&me, "udp_set_broadcast", json!(ek(&b)));
    }
    let n = u(&p, "n");
    let gap = Duration::from_millis(u(&p, "gap"));
    let mut sent = 0u64;
    let mut buf = [0u8; 64];
    loop {
        tokio::select! {
            r = sock.recv_from(&mut buf) => match r {
                Ok((k, from)) => obs(&me, "udp_recv", json!({"from": from.to_string(), "bytes": buf[..k].to_vec()})),
                Err(e) => { obs(&me, "udp_recv_err", json!(format!("{:?}", e.kind()))); return; }
            },
            _ = tokio::time::sleep(gap), if sent < n && !peers.is_empty() => {
                if !v6 && sent % 3 == 1 {
                    // IPv4 broadcast: one send fans out to every host that has the port bound
                    let r = sock.send_to(&[hid, sent as u8, 0xBC], (Ipv4Addr::BROADCAST, UDP_PORT)).await;
                    obs(&me, "udp_bcast", json!({"seq": sent, "res": ek(&r)}));
                } else {
                    let dst = &peers[(sent as usize) % peers.len()];
                    let r = sock.send_to(&[hid, sent as u8, 0xAB], (dst.as_str(), UDP_PORT)).await;
                    obs(&me, "udp_send", json!({"to": dst, "seq": sent, "res": ek(&r)}));
                }
                sent += 1;
            }
        }
    }
}

async fn prog_tcp(me: String, hid: u8, peers: Vec<String>, p: Value, v6: bool) {
    let listener = match TcpListener::bind((unspec(v6), TCP_PORT)).await {
        Ok(l) => l,
        Err(e) => {
            obs(&me, "tcp_bind", json!(format!("{:?}", e.kind())));
            return;
        }
    };
    let rbuf = u(&p, "rbuf") as usize;
    let me2 = me.clone();
    let server = async move {
        let mut k = 0u32;
        loop {
            match listener.accept().await {
                Ok((mut s, peer)) => {
                    k += 1;
                    obs(&me2, "tcp_accept", json!({"k": k, "peer": peer.to_string()}));
                    let me3 = me2.clone();
                    tokio::spawn(async move {
                        let mut buf = vec![0u8; rbuf.max(1)];
                        loop {
                            match s.read(&mut buf).await {
                                Ok(0) => { obs(&me3, "srv_eof", json!(k)); break; }
                                Ok(n) => {
                                    obs(&me3, "srv_read", json!({"k": k, "bytes": buf[..n].to_vec()}));
                                    let w = s.write_all(&buf[..n]).await;
                                    if w.is_err() { obs(&me3, "srv_write_err", json!(ek(&w))); break; }
                                }
                                Err(e) => { obs(&me3, "srv_read_err", json!(format!("{:?}", e.kind()))); break; }
                            }
                        }
                    });
                }
                Err(e) => { obs(&me2, "tcp_accept_err", json!(format!("{:?}", e.kind()))); return; }
            }
        }
    };
    let me4 = me.clone();
    let client = async move {
        if peers.is_empty() { return; }
        let target = peers[0].clone();
        let n = u(&p, "n");
        let chunk = u(&p, "chunk") as usize;
        for attempt in 0..3u32 {
            tokio::time::sleep(Duration::from_millis(u(&p, "gap"))).await;
            let c = tokio::time::timeout(Duration::from_millis(60), TcpStream::connect((target.as_str(), TCP_PORT))).await;
            match c {
                Err(_) => obs(&me4, "tcp_connect", json!({"attempt": attempt, "res": "timeout"})),
                Ok(Err(e)) => obs(&me4, "tcp_connect", json!({"attempt": attempt, "res": format!("{:?}", e.kind())})),
                Ok(Ok(mut s)) => {
                    obs(&me4, "tcp_connect", json!({"attempt": attempt, "res": "ok", "local": format!("{:?}", s.local_addr().ok())}));
                    for k in 0..n {
                        let data: Vec<u8> = (0..chunk).map(|i| hid.wrapping_mul(16).wrapping_add((k as u8).wrapping_mul(3)).wrapping_add(i as u8)).collect();
                        let w = s.write_all(&data).await;
                        obs(&me4, "cli_write", json!({"k": k, "res": ek(&w)}));
                        if w.is_err() { break; }
                        let mut got = Vec::new();
                        let mut buf = [0u8; 32];
                        while got.len() < chunk {
                            match tokio::time::timeout(Duration::from_millis(40), s.read(&mut buf)).await {
                                Err(_) => { obs(&me4, "cli_read", json!("timeout")); break; }
                                Ok(Ok(0)) => { obs(&me4, "cli_read", json!("eof")); break; }
                                Ok(Ok(m)) => got.extend_from_slice(&buf[..m]),
                                Ok(Err(e)) => { obs(&me4, "cli_read", json!(format!("{:?}", e.kind()))); break; }
                            }
                        }
                        obs(&me4, "cli_echo", json!({"k": k, "bytes": got}));
                    }
                    let sh = s.shutdown().await;
                    obs(&me4, "cli_shutdown", json!(ek(&sh)));
                    return;
                }
            }
        }
    };
    tokio::join!(server, client);
}

async fn prog_tokio(me: String, p: Value) {
    let tasks = u(&p, "tasks");
    let (tx, mut rx) = tokio::sync::mpsc::unbounded_channel::<(u64, u64)>();
    let mut js = tokio::task::JoinSet::new();
    for i in 0..tasks {
        let tx = tx.clone();
        js.spawn(async move {
            for j in 0..3u64 {
                tokio::time::sleep(Duration::from_millis((i * 3 + j * 2) % 5 + 1)).await;
                let _ = tx.send((i, j));
                tokio::task::yield_now().await;
            }
            i
        });
    }
    drop(tx);
    let mut iv = tokio::time::interval(Duration::from_millis(u(&p, "gap").max(1)));
    let mut ticks = 0;
    loop {
        // several branches are ready at once: the winner is picked by tokio's (seeded) rng
        tokio::select! {
            m = rx.recv() => match m {
                Some((i, j)) => obs(&me, "chan", json!([i, j])),
                None => break,
            },
            _ = iv.tick(), if ticks < 12 => { ticks += 1; obs(&me, "tick", json!(ticks)); }
            _ = std::future::ready(()), if ticks % 3 == 1 => { ticks += 1; obs(&me, "ready_branch", json!(ticks)); }
        }
    }
    while let Some(r) = js.join_next().await {
        obs(&me, "joined", json!(r.ok()));
    }
    for k in 0..6 {
        tokio::select! {
            _ = std::future::ready(()) => obs(&me, "sel", json!([k, "a"])),
            _ = std::future::ready(()) => obs(&me, "sel", json!([k, "b"])),
            _ = tokio::task::yield_now() => obs(&me, "sel", json!([k, "c"])),
        }
    }
    let t = tokio::time::timeout(Duration::from_millis(3), std::future::pending::<()>()).await;
    obs(&me, "timeout", json!(t.is_err()));
}

/// List a directory through the std and the tokio shim and log both orders.
async fn list_both(me: &str, dir: &str) {
    use turmoil::fs::shim::std::fs as sfs;
    use turmoil::fs::shim::tokio::fs as tfs;
    let names = |rd: std::io::Result<sfs::ReadDir>| -> Value {
        match rd {
            Ok(rd) => json!(rd
                .map(|e| match e {
                    Ok(e) => e.file_name().to_string_lossy().to_string(),
                    Err(e) => format!("err:{:?}", e.kind()),
                })
                .collect::<Vec<String>>()),
            Err(e) => json!(format!("{:?}", e.kind())),
        }
    };
    let a = names(sfs::read_dir(dir));
    let b = names(tfs::read_dir(dir).await);
    obs(me, "list", json!({"dir": dir, "std": a, "tokio": b}));
}

/// Durability pattern: every incarnation first lists what survived, then writes /wal/w<i> (fsync only: inode
/// durable, directory entry not -> orphan at the next crash) interleaved with /seg/s<i> (fsync + sync_dir:
/// fully durable). The controller crashes and bounces this host.
async fn prog_fsdur(me: String, p: Value) {
    use std::os::unix::fs::FileExt;
    use turmoil::fs::shim::std::fs as sfs;
    for d in ["/", "/seg", "/wal"] {
        list_both(&me, d).await;
    }
    for f in ["/seg/s0", "/seg/s1", "/wal/w0", "/wal/w1"] {
        obs(&me, "survivor", json!({"f": f, "res": match sfs::read(f) { Ok(b) => json!(b), Err(e) => json!(format!("{:?}", e.kind())) }}));
    }
    let r1 = sfs::create_dir("/seg");
    let r2 = sfs::create_dir("/wal");
    let r3 = sfs::sync_dir("/");
    obs(&me, "dur_dirs", json!([ek(&r1), ek(&r2), ek(&r3)]));
    let n = 3 + u(&p, "n") % 5;
    for i in 0..n {
        for (dir, pre, full) in [("/wal", "w", false), ("/seg", "s", true)] {
            // every third segment file is not followed by a sync_dir of its own (durable only via a later one)
            let full = full && i % 3 != 2;
            let path = format!("{dir}/{pre}{i}");
            let res = match sfs::OpenOptions::new().read(true).write(true).create(true).open(&path) {
                Ok(file) => {
                    let w = file.write_all_at(&[i as u8 + 1; 6], 0);
                    let s = file.sync_all();
                    let d = if full { ek(&sfs::sync_dir(dir)) } else { "skipped".to_string() };
                    json!([ek(&w), ek(&s), d])
                }
                Err(e) => json!(format!("open:{:?}", e.kind())),
            };
            obs(&me, "dur_write", json!({"f": path, "res": res}));
        }
        if i % 2 == 1 {
            tokio::time::sleep(Duration::from_millis(1)).await;
        }
    }
    for d in ["/seg", "/wal"] {
        list_both(&me, d).await;
    }
}

async fn prog_fs(me: String, p: Value) {
    use std::os::unix::fs::FileExt;
    use turmoil::fs::shim::std::fs as sfs;
    use turmoil::fs::shim::tokio::fs as tfs;
    let ops = p["fsops"].as_array().cloned().unwrap_or_default();
    // what survived the previous incarnation (if any)
    list_both(&me, "/d0").await;
    list_both(&me, "/d1").await;
    let _ = sfs::create_dir("/d0");
    if u(&p, "n") % 2 == 0 {
        let _ = sfs::create_dir("/d1");
    }
    for (i, o) in ops.iter().enumerate() {
        let dir = format!("/d{}", u(o, "d"));
        let f = format!("{dir}/f{}", u(o, "f"));
        let g = format!("/d{}/f{}", (u(o, "d") + u(o, "g")) % 2, u(o, "g"));
        let len = u(o, "len") as usize;
        let off = u(o, "off");
        let data: Vec<u8> = (0..len).map(|k| (i as u8).wrapping_mul(7).wrapping_add(k as u8)).collect();
        let op = o["op"].as_str().unwrap_or("");
        let res: Value = match op {
            "mkdir" => json!(ek(&sfs::create_dir(&dir))),
            "write" => match sfs::OpenOptions::new().read(true).write(true).create(true).open(&f) {
                Ok(file) => json!(ek(&file.write_all_at(&data, off))),
                Err(e) => json!(format!("open:{:?}", e.kind())),
            },
            "twrite" => json!(ek(&tfs::write(&f, &data).await)),
            "setlen" => match sfs::OpenOptions::new().write(true).open(&f) {
                Ok(file) => json!(ek(&file.set_len(off))),
                Err(e) => json!(format!("open:{:?}", e.kind())),
            },
            "sync" => match sfs::OpenOptions::new().read(true).open(&f) {
                Ok(file) => json!(ek(&file.sync_all())),
                Err(e) => json!(format!("open:{:?}", e.kind())),
            },
            "syncdir" => json!(ek(&sfs::sync_dir(&dir))),
            "rename" => json!(ek(&sfs::rename(&f, &g))),
            "remove" => json!(ek(&sfs::remove_file(&f))),
            "readdir" => match sfs::read_dir(&dir) {
                Ok(rd) => {
                    let names: Vec<String> = rd.map(|e| match e {
                        Ok(e) => e.file_name().to_string_lossy().to_string(),
                        Err(e) => format!("err:{:?}", e.kind()),
                    }).collect();
                    json!(names)
                }
                Err(e) => json!(format!("{:?}", e.kind())),
            },
            "treaddir" => match tfs::read_dir(&dir).await {
                Ok(rd) => {
                    let names: Vec<String> = rd.map(|e| match e {
                        Ok(e) => e.file_name().to_string_lossy().to_string(),
                        Err(e) => format!("err:{:?}", e.kind()),
                    }).collect();
                    json!(names)
                }
                Err(e) => json!(format!("{:?}", e.kind())),
            },
            "read" => match sfs::read(&f) {
                Ok(b) => json!(b),
                Err(e) => json!(format!("{:?}", e.kind())),
            },
            "tread" => match tfs::read(&f).await {
                Ok(b) => json!(b),
                Err(e) => json!(format!("{:?}", e.kind())),
            },
            "stat" => match sfs::metadata(&f) {
                Ok(m) => {
                    let ns = |t: std::io::Result<SystemTime>| t.ok().and_then(|t| t.duration_since(SystemTime::UNIX_EPOCH).ok()).map(|d| d.as_nanos().to_string());
                    json!({"len": m.len(), "file": m.is_file(), "mtime_ns": ns(m.modified()), "ctime_ns": ns(m.created()), "atime_ns": ns(m.accessed())})
                }
                Err(e) => json!(format!("{:?}", e.kind())),
            },
            _ => {
                tokio::time::sleep(Duration::from_millis(1 + off % 3)).await;
                json!("slept")
            }
        };
        obs(&me, "fs", json!({"i": i, "op": op, "f": f, "res": res}));
        if i % 7 == 3 {
            work(&p);
        }
    }
}

struct RingFd(std::os::fd::RawFd);
impl AsRawFd for RingFd {
    fn as_raw_fd(&self) -> std::os::fd::RawFd {
        self.0
    }
}

async fn prog_uring(me: String, p: Value) {
    use turmoil::fs::shim::std::fs as sfs;
    let _ = sfs::create_dir("/u");
    let file = match sfs::OpenOptions::new().read(true).write(true).create(true).open("/u/data") {
        Ok(f) => f,
        Err(e) => {
            obs(&me, "uring_open", json!(format!("{:?}", e.kind())));
            return;
        }
    };
    let fd = types::Fd(file.as_raw_fd());
    let mut ring = match IoUring::new(32) {
        Ok(r) => r,
        Err(e) => {
            obs(&me, "uring_new", json!(format!("{:?}", e.kind())));
            return;
        }
    };
    let afd = match AsyncFd::new(RingFd(ring.as_raw_fd())) {
        Ok(a) => a,
        Err(e) => {
            obs(&me, "uring_asyncfd", json!(format!("{:?}", e.kind())));
            return;
        }
    };
    let batch = u(&p, "batch");
    for round in 0..3u64 {
        // buffers are leaked: a crash may drop this task while the ring still refers to them
        let mut pushed = 0u64;
        let mut rbufs: Vec<&'static mut [u8]> = Vec::new();
        for k in 0..batch {
            let ud = round * 100 + k;
            let e = if (k + round) % 3 == 0 {
                let buf: &'static mut [u8] = Box::leak(vec![0u8; 8].into_boxed_slice());
                let e = opcode::Read::new(fd, buf.as_mut_ptr(), 8).offset(((k * 8) % 64) as _).build().user_data(ud);
                rbufs.push(buf);
                e
            } else if k == batch - 1 {
                opcode::Fsync::new(fd).build().user_data(ud)
            } else {
                let buf: &'static mut [u8] = Box::leak(vec![(ud % 251) as u8; 8].into_boxed_slice());
                opcode::Write::new(fd, buf.as_ptr(), 8).offset(((k * 8) % 64) as _).build().user_data(ud)
            };
            let r = unsafe { ring.submission().push(&e) };
            if r.is_ok() { pushed += 1; } else { obs(&me, "uring_push", json!("full")); }
        }
        let s = ring.submit();
        obs(&me, "uring_submit", json!({"round": round, "res": format!("{:?}", s.as_ref().ok()), "err": ek(&s)}));
        let mut got = 0;
        while got < pushed {
            let cqe = {
                let mut cq = ring.completion();
                cq.sync();
                cq.next()
            };
            match cqe {
                Some(c) => {
                    got += 1;
                    obs(&me, "cqe", json!({"ud": c.user_data(), "res": c.result()}));
                }
                None => {
                    if afd.readable().await.is_err() {
                        obs(&me, "uring_readable", json!("err"));
                        return;
                    }
                }
            }
        }
        work(&p);
        let reads: Vec<Vec<u8>> = rbufs.iter().map(|b| b.to_vec()).collect();
        obs(&me, "uring_reads", json!(reads));
        tokio::time::sleep(Duration::from_millis(1)).await;
    }
    drop(file);
}

async fn host_main(me: String, hid: u8, peers: Vec<String>, p: Value, v6: bool) -> turmoil::Result {
    work(&p);
    obs(&me, "start", json!({"since_epoch_ms": turmoil::since_epoch().map(|d| d.as_millis() as u64)}));
    let net = p["net"].as_str().unwrap_or("none").to_string();
    let loc = p["loc"].as_str().unwrap_or("none").to_string();
    let (m1, m2) = (me.clone(), me.clone());
    let (p1, p2) = (p.clone(), p.clone());
    let netf = async move {
        match net.as_str() {
            "udp" => prog_udp(m1, hid, peers, p1, v6).await,
            "tcp" => prog_tcp(m1, hid, peers, p1, v6).await,
            _ => {}
        }
    };
    let locf = async move {
        match loc.as_str() {
            "tokio" => prog_tokio(m2, p2).await,
            "fs" => prog_fs(m2, p2).await,
            "fsdur" => prog_fsdur(m2, p2).await,
            "uring" => prog_uring(m2, p2).await,
            _ => {}
        }
    };
    tokio::join!(netf, locf);
    obs(&me, "done", json!(null));
    std::future::pending::<()>().await;
    Ok(())
}

// ---------------------------------------------------------------------------
// one run of one scenario

/// Flatten a record to one level with string leaves (`{"v":{"res":8}}` -> `{"v.res":"8"}`), so that
/// TLC compares records as functions from field paths to strings and never meets values of different types.
fn flatten(prefix: &str, v: &Value, out: &mut Map<String, Value>) {
    let key = |k: &str| if prefix.is_empty() { k.to_string() } else { format!("{prefix}.{k}") };
    match v {
        Value::Object(m) => {
            if m.is_empty() {
                out.insert(prefix.to_string(), Value::String("{}".into()));
            }
            for (k, x) in m {
                flatten(&key(k), x, out);
            }
        }
        Value::Array(a) => {
            if a.iter().all(|x| x.is_number()) {
                // byte / id arrays become one string (keeps the records small for TLC)
                out.insert(prefix.to_string(), Value::String(format!("[{}]", a.iter().map(|x| x.to_string()).collect::<Vec<_>>().join(","))));
            } else {
                out.insert(key("len"), Value::String(a.len().to_string()));
                for (i, x) in a.iter().enumerate() {
                    flatten(&key(&i.to_string()), x, out);
                }
            }
        }
        Value::String(s) => {
            out.insert(prefix.to_string(), Value::String(s.clone()));
        }
        Value::Null => {
            out.insert(prefix.to_string(), Value::String("null".into()));
        }
        other => {
            out.insert(prefix.to_string(), Value::String(other.to_string()));
        }
    }
}

fn stringify(v: &Value) -> Value {
    let mut out = Map::new();
    flatten("", v, &mut out);
    Value::Object(out)
}

fn run_scenario(sc: &Value, k: u64) -> Vec<Value> {
    RUN_K.with(|c| c.set(k));
    let _ = rec::take();
    rec::with_recorder(|| {
        let mut b = turmoil::Builder::new();
        b.rng_seed(u(sc, "seed"))
            .epoch(SystemTime::UNIX_EPOCH + Duration::from_secs(u(sc, "epoch_s")))
            .tick_duration(Duration::from_millis(u(sc, "tick_ms")))
            .simulation_duration(Duration::from_millis(u(sc, "tick_ms") * (u(sc, "steps") + 40)))
            .min_message_latency(Duration::from_millis(u(sc, "lat_min_ms")))
            .max_message_latency(Duration::from_millis(u(sc, "lat_max_ms")))
            .fail_rate(u(sc, "fail") as f64 / 100.0)
            .repair_rate(u(sc, "repair") as f64 / 100.0)
            .tcp_capacity(u(sc, "tcp_cap") as usize)
            .udp_capacity(u(sc, "udp_cap") as usize);
        let v6 = sc["ipv6"].as_bool().unwrap_or(false);
        if v6 {
            b.ip_version(turmoil::IpVersion::V6);
        }
        if sc["random_order"].as_bool().unwrap_or(false) {
            b.enable_random_order();
        }
        {
            let f = &sc["fs"];
            let fc = b.fs();
            fc.sync_probability(u(f, "sync_p") as f64 / 100.0)
                .io_error_probability(u(f, "io_err_p") as f64 / 100.0)
                .short_read_probability(u(f, "short_read_p") as f64 / 100.0)
                .corruption_probability(u(f, "corrupt_p") as f64 / 100.0);
            if u(f, "block") > 0 {
                fc.block_size(u(f, "block"));
            }
            fc.io_latency()
                .min_latency(Duration::from_micros(u(f, "lat_min_us")))
                .max_latency(Duration::from_micros(u(f, "lat_min_us") + u(f, "lat_extra_us")));
        }
        let mut sim = b.build();
        if let Some(c) = sc["curve"].as_u64() {
            sim.set_message_latency_curve(c as f64);
        }
        let hosts = sc["hosts"].as_array().cloned().unwrap_or_default();
        let names: Vec<String> = hosts.iter().map(|h| h["name"].as_str().unwrap().to_string()).collect();
        for (i, h) in hosts.iter().enumerate() {
            let me = names[i].clone();
            let peers: Vec<String> = (1..names.len()).map(|k| names[(i + k) % names.len()].clone()).collect();
            let p = h.clone();
            sim.host(me.clone(), move || host_main(me.clone(), i as u8, peers.clone(), p.clone(), v6));
        }
        // the one client: finishes half way, so step() turns true and run() has a verdict
        let half = u(sc, "tick_ms") * u(sc, "steps") / 2;
        let nm = names.clone();
        let endless = sc["endless"].as_bool().unwrap_or(false);
        sim.client("driver", async move {
            for n in &nm {
                obs("driver", "lookup", json!(turmoil::lookup(n.as_str()).to_string()));
            }
            tokio::time::sleep(Duration::from_millis(half)).await;
            if endless {
                obs("driver", "waiting_forever", json!(null));
                std::future::pending::<()>().await;
            }
            obs("driver", "finished", json!(null));
            Ok(())
        });
        let ctl = sc["ctl"].as_array().cloned().unwrap_or_default();
        let mut failed = false;
        for step in 0..u(sc, "steps") {
            for c in ctl.iter().filter(|c| u(c, "step") == step) {
                let (a, bb) = (names[u(c, "a") as usize].clone(), names[u(c, "b") as usize].clone());
                let op = c["op"].as_str().unwrap_or("");
                let v = u(c, "v");
                let mut extra = Value::Null;
                // a stall of the test thread (real time only) right before the call
                real_sleep(u(c, "stall_us"));
                match op {
                    "crash" => sim.crash(a.as_str()),
                    "bounce" => sim.bounce(a.as_str()),
                    "partition" => sim.partition(a.as_str(), bb.as_str()),
                    "repair" => sim.repair(a.as_str(), bb.as_str()),
                    "hold" => sim.hold(a.as_str(), bb.as_str()),
                    "release" => sim.release(a.as_str(), bb.as_str()),
                    "partition_oneway" => sim.partition_oneway(a.as_str(), bb.as_str()),
                    "repair_oneway" => sim.repair_oneway(a.as_str(), bb.as_str()),
                    "set_link_latency" => sim.set_link_latency(a.as_str(), bb.as_str(), Duration::from_millis(v)),
                    "set_max_latency" => sim.set_max_message_latency(Duration::from_millis(u(sc, "lat_min_ms") + v)),
                    "curve" => sim.set_message_latency_curve(1.0 + v as f64),
                    "deliver" => {
                        // manual delivery (SentRef::deliver) of everything in flight / held between a and b
                        let (x, y) = (sim.lookup(a.as_str()), sim.lookup(bb.as_str()));
                        let mut n = 0;
                        sim.links(|it| {
                            for link in it {
                                let (p, q) = link.pair();
                                if (p == x && q == y) || (p == y && q == x) {
                                    for sent in link {
                                        sent.deliver();
                                        n += 1;
                                    }
                                }
                            }
                        });
                        extra = json!({"delivered": n});
                    }
                    "links" => {
                        let mut l = Vec::new();
                        sim.links(|it| {
                            for link in it {
                                let (x, y) = link.pair();
                                let msgs: Vec<String> = link.map(|s| format!("{:?}->{:?} {}", s.pair().0, s.pair().1, s.protocol())).collect();
                                l.push(json!({"a": x.to_string(), "b": y.to_string(), "sent": msgs}));
                            }
                        });
                        extra = json!(l);
                    }
                    _ => {}
                }
                rec::emit(json!({"ev":"ctl","step":step,"op":op,"a":a,"b":bb,"v":v,"extra":extra}));
            }
            let r = util::catch(|| sim.step());
            let res = match &r {
                Ok(Ok(b)) => b.to_string(),
                Ok(Err(e)) => format!("err:{e}"),
                Err(p) => format!("panic:{p}"),
            };
            rec::emit(json!({"ev":"step","n":step,"res":res,"elapsed_us":sim.elapsed().as_micros() as u64,
                             "since_epoch_us":sim.since_epoch().as_micros() as u64}));
            if !matches!(r, Ok(Ok(_))) {
                failed = true;
                break;
            }
        }
        if !failed {
            let r = util::catch(|| sim.run());
            let res = match &r {
                Ok(Ok(())) => "ok".to_string(),
                Ok(Err(e)) => format!("err:{e}"),
                Err(p) => format!("panic:{p}"),
            };
            rec::emit(json!({"ev":"run","res":res,"elapsed_us":sim.elapsed().as_micros() as u64}));
        }
        let _ = util::catch(move || drop(sim));
    });
    rec::take().iter().map(stringify).collect()
}

fn load(path: &str) -> Vec<Value> {
    std::fs::read_to_string(path).expect("read scenarios").lines().filter(|l| !l.trim().is_empty())
        .map(|l| serde_json::from_str(l).expect("scenario json")).collect()
}

fn main() {
    let args: Vec<String> = std::env::args().skip(1).collect();
    match args.first().map(|s| s.as_str()) {
        Some("mk") => {
            let seed = util::arg_u64(&args, "seed", 1);
            let count = util::arg_u64(&args, "count", 10);
            let out = util::arg(&args, "out").expect("out=");
            let v: Vec<Value> = (0..count)
                .map(|i| {
                    let forced = match i { 0 | 2 => Some(0u64), 1 | 3 => Some(u64::MAX), _ => None };
                    mk_scenario(i, seed.wrapping_mul(1_000_003).wrapping_add(i), forced)
                })
                .collect();
            util::write_ndjson(&out, &v);
            println!("scenarios={count}");
        }
        Some("emit") | Some("--emit") => {
            let scs = load(&util::arg(&args, "in").expect("in="));
            let idx = util::arg_u64(&args, "idx", 0) as usize;
            let out = util::arg(&args, "out").expect("out=");
            util::write_ndjson(&out, &run_scenario(&scs[idx], util::arg_u64(&args, "k", 2)));
        }
        Some("run") => {
            let inp = util::arg(&args, "in").expect("in=");
            let out = util::arg(&args, "out").expect("out=");
            let scs = load(&inp);
            let exe = std::env::current_exe().expect("current_exe");
            let mut all: [Vec<Value>; 4] = Default::default();
            let (mut events, mut netev, mut obsev) = (0usize, 0usize, 0usize);
            for (i, sc) in scs.iter().enumerate() {
                let mut traces: Vec<Vec<Value>> = Vec::new();
                traces.push(run_scenario(sc, 0));
                traces.push(run_scenario(sc, 1));
                for (kk, k) in [(2u64, "c"), (3u64, "d")] {
                    let p = format!("{out}/s{i}_{k}.ndjson");
                    let st = std::process::Command::new(&exe)
                        .args(["--emit", &format!("in={inp}"), &format!("idx={i}"), &format!("k={kk}"), &format!("out={p}")])
                        .status().expect("spawn emit");
                    if !st.success() {
                        // a crashed child is an observation too: its trace is what it managed to write (nothing)
                        util::write_ndjson(&p, &[json!({"ev":"emit_failed","status":format!("{st:?}")})]);
                    }
                    traces.push(load(&p));
                }
                for (k, t) in ["a", "b"].iter().zip(traces.iter()) {
                    util::write_ndjson(&format!("{out}/s{i}_{k}.ndjson"), t);
                }
                events += traces[0].len();
                netev += traces[0].iter().filter(|e| e["ev"] == "t").count();
                obsev += traces[0].iter().filter(|e| e["ev"] == "obs").count();
                for (k, t) in traces.into_iter().enumerate() {
                    all[k].push(json!({"ev":"scenario","id":i.to_string()}));
                    all[k].extend(t);
                }
            }
            for (k, n) in ["a", "b", "c", "d"].iter().enumerate() {
                util::write_ndjson(&format!("{out}/all_{n}.ndjson"), &all[k]);
            }
            println!("scenarios={} events_per_run={events} tracing_events={netev} observations={obsev}", scs.len());
        }
        Some("probe") => {
            // diagnosis helper: run one scenario k times in this process, print a digest per run
            let scs = load(&util::arg(&args, "in").expect("in="));
            let idx = util::arg_u64(&args, "idx", 0) as usize;
            for k in 0..util::arg_u64(&args, "k", 3) {
                let t = run_scenario(&scs[idx], k % 4);
                let text: String = t.iter().map(|e| e.to_string()).collect::<Vec<_>>().join("\n");
                let mut h = 0xcbf29ce484222325u64;
                for b in text.bytes() {
                    h = (h ^ b as u64).wrapping_mul(0x100000001b3);
                }
                println!("run {k}: {} records, digest {h:016x}", t.len());
                if let Some(o) = util::arg(&args, "out") {
                    util::write_ndjson(&format!("{o}/probe_{k}.ndjson"), &t);
                }
            }
        }
        _ => {
            eprintln!("usage: det mk|emit|run|probe key=value...");
            std::process::exit(2);
        }
    }
}
