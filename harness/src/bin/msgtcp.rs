//! Driver for turmoil::net message-level TCP and the port / DNS allocators
//! (specs/msgtcp): C02, C12, C15.
//!
//! Modes
//!   ports-replay in=<behaviours.ndjson> out=<summary.json> traces=<dir> lo= hi= v6=0|1
//!       every line is one TLC-generated history of PortsGen (bind / connect /
//!       accept / drop / crash on the host under test, or DNS calls); it is
//!       executed against a real Sim and the result of every call plus the
//!       hook snapshot of the host tables is compared with TLC's prediction.
//!   ports-random seed= runs= ops= lo= hi= maxsock= out=<trace.ndjson>
//!       seeded random histories (longer, larger ranges, IPv4 and IPv6,
//!       DNS with many names); one concatenated event trace.
//!   tcp-replay / tcp-random: see the second half of this file.
use rand::rngs::SmallRng;
use rand::{Rng, SeedableRng};
use serde_json::{json, Value};
use std::cell::RefCell;
use std::collections::{BTreeMap, VecDeque};
use std::future::Future;
use std::net::{IpAddr, Ipv4Addr, Ipv6Addr, SocketAddr};
use std::pin::Pin;
use std::rc::Rc;
use std::task::Poll;
use std::time::Duration;
use tokio::sync::Notify;
use turmoil::net::tcp::{OwnedReadHalf, OwnedWriteHalf};
use turmoil::net::{TcpListener, TcpStream, UdpSocket};
use vh::{rec, util};

const ADDR_IN_USE: i64 = -1;
const EXHAUSTED: i64 = -2;
const FAILED: i64 = -3;

thread_local! {
    static PANICS: RefCell<Vec<String>> = const { RefCell::new(Vec::new()) };
}

static PANIC_LOG: std::sync::OnceLock<String> = std::sync::OnceLock::new();
static CURRENT_CASE: std::sync::atomic::AtomicI64 = std::sync::atomic::AtomicI64::new(-1);

/// Like util::catch, but returns the messages of *all* panics raised while `f` ran
/// (the first one is the cause; later ones are tokio's "a spawned task panicked").
/// Every panic is also appended (with its source location and the behaviour / run being executed)
/// to the file named by `panics=`: a panic inside a destructor aborts the process and cannot be
/// caught, the check then reads what happened from that file.
fn catch_all<R>(f: impl FnOnce() -> R) -> Result<R, Vec<String>> {
    let prev = std::panic::take_hook();
    PANICS.with(|p| p.borrow_mut().clear());
    std::panic::set_hook(Box::new(|info| {
        let msg = if let Some(s) = info.payload().downcast_ref::<&str>() {
            s.to_string()
        } else if let Some(s) = info.payload().downcast_ref::<String>() {
            s.clone()
        } else {
            "panic".to_string()
        };
        if let Some(path) = PANIC_LOG.get() {
            use std::io::Write;
            if let Ok(mut f) = std::fs::OpenOptions::new().create(true).append(true).open(path) {
                let loc = info.location().map(|l| format!("{}:{}", l.file(), l.line())).unwrap_or_default();
                let case = CURRENT_CASE.load(std::sync::atomic::Ordering::Relaxed);
                let _ = writeln!(f, "{}", json!({"case":case,"loc":loc,"msg":msg}));
            }
        }
        PANICS.with(|p| p.borrow_mut().push(msg));
    }));
    let r = std::panic::catch_unwind(std::panic::AssertUnwindSafe(f));
    std::panic::set_hook(prev);
    r.map_err(|_| PANICS.with(|p| p.borrow().clone()))
}

fn catch1<R>(f: impl FnOnce() -> R) -> Result<R, String> {
    catch_all(f).map_err(|v| v.first().cloned().unwrap_or_default())
}

fn documented_panic(msg: &str) -> bool {
    msg.contains("server socket buffer full") || msg.contains("is already connected") || msg.contains("ports exhausted")
}

/// Poll a future exactly once.
async fn poll_once<F: Future + Unpin>(f: &mut F) -> Poll<F::Output> {
    std::future::poll_fn(|cx| Poll::Ready(Pin::new(&mut *f).poll(cx))).await
}

type BoxFut<T> = Pin<Box<dyn Future<Output = T>>>;

fn wildcard(v6: bool) -> IpAddr {
    if v6 {
        IpAddr::V6(Ipv6Addr::UNSPECIFIED)
    } else {
        IpAddr::V4(Ipv4Addr::UNSPECIFIED)
    }
}

fn bind_ip(v6: bool, lo: bool) -> IpAddr {
    match (lo, v6) {
        (false, _) => wildcard(v6),
        (true, false) => IpAddr::V4(Ipv4Addr::LOCALHOST),
        (true, true) => IpAddr::V6(Ipv6Addr::LOCALHOST),
    }
}

// ===========================================================================
// Ports (C15)

enum XSock {
    Udp(#[allow(dead_code)] UdpSocket),
    Lst(TcpListener),
    Whole(#[allow(dead_code)] TcpStream),
    Split(Option<OwnedReadHalf>, Option<OwnedWriteHalf>),
}

#[derive(Clone, Debug)]
enum XCmd {
    BindUdp { s: usize, p: u16, lo: bool },
    BindTcp { s: usize, p: u16, lo: bool },
    Connect { s: usize, how: String },
    CancelPending { s: usize },
    Accept { s: usize, l: usize },
    Drop { s: usize },
    DropHalf { s: usize, h: String },
}

#[derive(Clone, Debug)]
enum PCmd {
    ConnectTo { port: u16 },
    CloseAcc { xport: u16 },
    CloseOut { pport: u16 },
    CloseAll,
}

#[derive(Default)]
struct PortsShared {
    xcmds: VecDeque<XCmd>,
    pcmds: VecDeque<PCmd>,
    /// results of X's calls: {"s":slot, "res":port|code, "peer":port of the remote end, "kind":..}
    results: Vec<Value>,
    v6: bool,
}

fn io_code(e: &std::io::Error) -> i64 {
    match e.kind() {
        std::io::ErrorKind::AddrInUse => ADDR_IN_USE,
        _ => FAILED,
    }
}

/// The host under test.
async fn ports_x(sh: Rc<RefCell<PortsShared>>, nt: Rc<Notify>) -> turmoil::Result {
    let v6 = sh.borrow().v6;
    let mut socks: BTreeMap<usize, XSock> = BTreeMap::new();
    let mut pending: Vec<(usize, BoxFut<std::io::Result<TcpStream>>)> = Vec::new();
    let mut accepting: Vec<(usize, usize)> = Vec::new();
    loop {
        nt.notified().await;
        // progress of earlier calls
        let mut still = Vec::new();
        for (s, mut fut) in pending.drain(..) {
            match poll_once(&mut fut).await {
                Poll::Ready(Ok(st)) => {
                    let port = st.local_addr().unwrap().port() as i64;
                    let peer = st.peer_addr().unwrap().port();
                    socks.insert(s, XSock::Whole(st));
                    sh.borrow_mut().results.push(json!({"s":s,"res":port,"peer":peer,"kind":"out"}));
                }
                Poll::Ready(Err(e)) => {
                    sh.borrow_mut().results.push(json!({"s":s,"res":FAILED,"err":format!("{:?}", e.kind())}));
                }
                Poll::Pending => still.push((s, fut)),
            }
        }
        pending = still;
        let mut still = Vec::new();
        for (s, l) in accepting.drain(..) {
            let r = match socks.get(&l) {
                Some(XSock::Lst(lst)) => {
                    let mut fut = Box::pin(lst.accept());
                    poll_once(&mut fut).await
                }
                _ => Poll::Ready(Err(std::io::Error::other("no listener"))),
            };
            match r {
                Poll::Ready(Ok((st, from))) => {
                    let port = st.local_addr().unwrap().port() as i64;
                    socks.insert(s, XSock::Whole(st));
                    sh.borrow_mut().results.push(json!({"s":s,"res":port,"peer":from.port(),"kind":"in"}));
                }
                Poll::Ready(Err(_)) => {
                    sh.borrow_mut().results.push(json!({"s":s,"res":FAILED}));
                }
                Poll::Pending => still.push((s, l)),
            }
        }
        accepting = still;
        let cmds: Vec<XCmd> = sh.borrow_mut().xcmds.drain(..).collect();
        for c in cmds {
            match c {
                XCmd::BindUdp { s, p, lo } => {
                    let r = util::catch(|| {
                        let mut fut = Box::pin(UdpSocket::bind((bind_ip(v6, lo), p)));
                        futures_now(&mut fut)
                    });
                    let res = match r {
                        Err(_) => EXHAUSTED,
                        Ok(Some(Ok(sock))) => {
                            let port = sock.local_addr().unwrap().port() as i64;
                            socks.insert(s, XSock::Udp(sock));
                            port
                        }
                        Ok(Some(Err(e))) => io_code(&e),
                        Ok(None) => FAILED,
                    };
                    sh.borrow_mut().results.push(json!({"s":s,"res":res}));
                }
                XCmd::BindTcp { s, p, lo } => {
                    let r = util::catch(|| {
                        let mut fut = Box::pin(TcpListener::bind((bind_ip(v6, lo), p)));
                        futures_now(&mut fut)
                    });
                    let res = match r {
                        Err(_) => EXHAUSTED,
                        Ok(Some(Ok(l))) => {
                            let port = l.local_addr().unwrap().port() as i64;
                            socks.insert(s, XSock::Lst(l));
                            port
                        }
                        Ok(Some(Err(e))) => io_code(&e),
                        Ok(None) => FAILED,
                    };
                    sh.borrow_mut().results.push(json!({"s":s,"res":res}));
                }
                XCmd::Connect { s, how } => {
                    let mut fut: BoxFut<std::io::Result<TcpStream>> = match how.as_str() {
                        "ok" | "cancel" => Box::pin(TcpStream::connect(("peer", 80))),
                        "refused" => Box::pin(TcpStream::connect(("peer", 81))),
                        // port 82: a listener that never accepts - the connect stays pending
                        "hang" => Box::pin(TcpStream::connect(("peer", 82))),
                        _ => {
                            let a: SocketAddr = if v6 {
                                "[fd00::99]:80".parse().unwrap()
                            } else {
                                "10.99.99.99:80".parse().unwrap()
                            };
                            Box::pin(TcpStream::connect(a))
                        }
                    };
                    let r = util::catch(|| futures_now(&mut fut));
                    match r {
                        Err(_) => sh.borrow_mut().results.push(json!({"s":s,"res":EXHAUSTED})),
                        Ok(Some(Ok(st))) => {
                            let port = st.local_addr().unwrap().port() as i64;
                            let peer = st.peer_addr().unwrap().port();
                            socks.insert(s, XSock::Whole(st));
                            sh.borrow_mut().results.push(json!({"s":s,"res":port,"peer":peer,"kind":"out"}));
                        }
                        Ok(Some(Err(e))) => sh
                            .borrow_mut()
                            .results
                            .push(json!({"s":s,"res":FAILED,"err":format!("{:?}", e.kind())})),
                        Ok(None) => pending.push((s, fut)),
                    }
                }
                XCmd::CancelPending { s } => {
                    let (mine, rest): (Vec<_>, Vec<_>) = pending.drain(..).partition(|(ps, _)| *ps == s);
                    pending = rest;
                    for (s, fut) in mine {
                        drop(fut);
                        sh.borrow_mut().results.push(json!({"s":s,"res":FAILED,"err":"cancelled"}));
                    }
                }
                XCmd::Accept { s, l } => accepting.push((s, l)),
                XCmd::Drop { s } => {
                    socks.remove(&s);
                    pending.retain(|(ps, _)| *ps != s); // a pending connect is dropped with its future
                }
                XCmd::DropHalf { s, h } => {
                    let cur = socks.remove(&s);
                    let (mut r, mut w) = match cur {
                        Some(XSock::Whole(st)) => {
                            let (r, w) = st.into_split();
                            (Some(r), Some(w))
                        }
                        Some(XSock::Split(r, w)) => (r, w),
                        _ => (None, None),
                    };
                    if h == "r" {
                        r = None;
                    } else {
                        w = None;
                    }
                    if r.is_some() || w.is_some() {
                        socks.insert(s, XSock::Split(r, w));
                    }
                }
            }
        }
    }
}

/// Poll a future once with a no-op waker (for calls whose body is synchronous
/// or whose first poll is what we want to observe, possibly under catch_unwind).
fn futures_now<F: Future + Unpin>(f: &mut F) -> Option<F::Output> {
    let waker = std::task::Waker::noop();
    let mut cx = std::task::Context::from_waker(waker);
    match Pin::new(f).poll(&mut cx) {
        Poll::Ready(v) => Some(v),
        Poll::Pending => None,
    }
}

/// The remote peer: listens on port 80, accepts everything, connects on demand.
async fn ports_peer(sh: Rc<RefCell<PortsShared>>, nt: Rc<Notify>) -> turmoil::Result {
    let v6 = sh.borrow().v6;
    let lst = TcpListener::bind((wildcard(v6), 80)).await?;
    let _never_accepts = TcpListener::bind((wildcard(v6), 82)).await?;
    let mut accepted: Vec<(u16, TcpStream)> = Vec::new();
    let mut outs: Vec<(u16, TcpStream)> = Vec::new();
    let mut pending: Vec<BoxFut<std::io::Result<TcpStream>>> = Vec::new();
    loop {
        nt.notified().await;
        loop {
            let mut fut = Box::pin(lst.accept());
            match poll_once(&mut fut).await {
                Poll::Ready(Ok((st, from))) => accepted.push((from.port(), st)),
                _ => break,
            }
        }
        let mut still = Vec::new();
        for mut fut in pending.drain(..) {
            match poll_once(&mut fut).await {
                Poll::Ready(Ok(st)) => outs.push((st.local_addr().unwrap().port(), st)),
                Poll::Ready(Err(_)) => {}
                Poll::Pending => still.push(fut),
            }
        }
        pending = still;
        let cmds: Vec<PCmd> = sh.borrow_mut().pcmds.drain(..).collect();
        for c in cmds {
            match c {
                PCmd::ConnectTo { port } => {
                    let mut fut: BoxFut<std::io::Result<TcpStream>> = Box::pin(TcpStream::connect(("x", port)));
                    match poll_once(&mut fut).await {
                        Poll::Ready(Ok(st)) => outs.push((st.local_addr().unwrap().port(), st)),
                        Poll::Ready(Err(_)) => {}
                        Poll::Pending => pending.push(fut),
                    }
                }
                PCmd::CloseAcc { xport } => accepted.retain(|(p, _)| *p != xport),
                PCmd::CloseOut { pport } => outs.retain(|(p, _)| *p != pport),
                PCmd::CloseAll => {
                    accepted.clear();
                    outs.clear();
                }
            }
        }
    }
}

#[derive(Clone, Debug)]
struct SlotInfo {
    lo: bool,     // bound to the loopback address
    kind: String, // udp | lst | out | in
    port: u16,
    peer: u16,
    r: bool,
    w: bool,
}

struct PortsRun<'a> {
    sim: turmoil::Sim<'a>,
    sh: Rc<RefCell<PortsShared>>,
    nx: Rc<Notify>,
    np: Rc<Notify>,
    slots: BTreeMap<usize, SlotInfo>,
}

impl<'a> PortsRun<'a> {
    fn new(lo: u16, hi: u16, v6: bool, seed: u64) -> PortsRun<'a> {
        let mut b = turmoil::Builder::new();
        b.tick_duration(Duration::from_millis(1))
            .min_message_latency(Duration::from_millis(1))
            .max_message_latency(Duration::from_millis(1))
            .ephemeral_ports(lo..=hi)
            .tcp_capacity(4096)
            .rng_seed(seed)
            .simulation_duration(Duration::from_secs(36000));
        if v6 {
            b.ip_version(turmoil::IpVersion::V6);
        }
        let mut sim = b.build();
        let sh = Rc::new(RefCell::new(PortsShared { v6, ..Default::default() }));
        let nx = Rc::new(Notify::new());
        let np = Rc::new(Notify::new());
        {
            let (sh, nx) = (sh.clone(), nx.clone());
            sim.host("x", move || ports_x(sh.clone(), nx.clone()));
        }
        {
            let (sh, np) = (sh.clone(), np.clone());
            sim.host("peer", move || ports_peer(sh.clone(), np.clone()));
        }
        let mut r = PortsRun { sim, sh, nx, np, slots: BTreeMap::new() };
        r.steps(2);
        rec::take();
        rec::emit(json!({"ev":"reset"}));
        r
    }

    fn steps(&mut self, n: usize) {
        for _ in 0..n {
            self.nx.notify_one();
            self.np.notify_one();
            self.sim.step().expect("step");
        }
    }

    fn take_result(&mut self, s: usize) -> Option<Value> {
        let mut sh = self.sh.borrow_mut();
        let i = sh.results.iter().position(|r| r["s"].as_u64() == Some(s as u64))?;
        Some(sh.results.remove(i))
    }

    fn wait_result(&mut self, s: usize) -> Value {
        for _ in 0..12 {
            if let Some(r) = self.take_result(s) {
                self.steps(2);
                return r;
            }
            self.steps(1);
        }
        json!({"s":s,"res":FAILED,"err":"unresolved"})
    }

    fn tables(&self) -> Value {
        let t = self.sim.verif_host_tables("x");
        let mut udp = t.udp_binds.clone();
        udp.sort();
        let mut tcp = t.tcp_binds.clone();
        tcp.sort();
        let mut st: Vec<u16> = t.tcp_streams.iter().map(|(l, _)| l.port()).collect();
        st.sort();
        st.dedup();
        json!({"ev":"tables","cur":t.next_ephemeral_port,"udp":udp,"tcp":tcp,"str":st})
    }

    /// After a stream slot of x is completely gone the peer closes its end so
    /// that the 4-tuple may be reused (otherwise: documented "already connected" panic).
    fn peer_close(&mut self, info: &SlotInfo) {
        let c = match info.kind.as_str() {
            "out" => PCmd::CloseAcc { xport: info.port },
            "in" => PCmd::CloseOut { pport: info.peer },
            _ => return,
        };
        self.steps(2);
        self.sh.borrow_mut().pcmds.push_back(c);
        self.steps(3);
    }

    /// Execute one operation; returns the observation event.
    fn op(&mut self, o: &Value) -> Value {
        let a = o["a"].as_str().unwrap();
        let s = o["s"].as_u64().unwrap_or(0) as usize;
        let ev = match a {
            "bind" => {
                let proto = o["proto"].as_str().unwrap();
                let p = o["p"].as_u64().unwrap() as u16;
                let kind = o["kind"].as_str().unwrap_or("any").to_string();
                let lo = kind == "lo";
                let c = if proto == "udp" { XCmd::BindUdp { s, p, lo } } else { XCmd::BindTcp { s, p, lo } };
                self.sh.borrow_mut().xcmds.push_back(c);
                self.steps(1);
                let r = self.wait_result(s);
                let res = r["res"].as_i64().unwrap();
                if res > 0 {
                    self.slots.insert(
                        s,
                        SlotInfo { lo, kind: if proto == "udp" { "udp" } else { "lst" }.into(), port: res as u16, peer: 0, r: true, w: true },
                    );
                }
                json!({"ev":"bind","proto":proto,"kind":kind,"s":s,"p":p,"res":res})
            }
            "connect" => {
                let how = o["how"].as_str().unwrap().to_string();
                if how == "cancel" {
                    self.sim.hold("x", "peer");
                }
                self.sh.borrow_mut().xcmds.push_back(XCmd::Connect { s, how: how.clone() });
                self.steps(1);
                if how == "hang" {
                    // the port the pending attempt holds: source of its SYN, as Sim::links shows it
                    let res = match self.take_result(s) {
                        Some(r) => r["res"].as_i64().unwrap(),
                        None => {
                            let mut port = FAILED;
                            self.sim.links(|links| {
                                for link in links {
                                    for sent in link {
                                        let (src, dst) = sent.pair();
                                        if dst.port() == 82 && matches!(sent.protocol(), turmoil::Protocol::Tcp(turmoil::Segment::Syn(_))) {
                                            port = src.port() as i64;
                                        }
                                    }
                                }
                            });
                            port
                        }
                    };
                    self.steps(2);
                    if res > 0 {
                        self.slots.insert(s, SlotInfo { lo: false, kind: "att".into(), port: res as u16, peer: 0, r: true, w: true });
                    }
                    self.steps(1);
                    return json!({"ev":"connect","s":s,"how":how,"res":res});
                }
                if how == "cancel" {
                    // an exhausted attempt has already reported; otherwise cancel it now
                    if self.sh.borrow().results.iter().all(|r| r["s"].as_u64() != Some(s as u64)) {
                        self.sh.borrow_mut().xcmds.push_back(XCmd::CancelPending { s });
                        self.steps(1);
                    }
                    self.sim.release("x", "peer");
                    self.steps(3);
                }
                let r = self.wait_result(s);
                let res = r["res"].as_i64().unwrap();
                if res > 0 {
                    self.slots.insert(
                        s,
                        SlotInfo { lo: false, kind: "out".into(), port: res as u16, peer: r["peer"].as_u64().unwrap() as u16, r: true, w: true },
                    );
                }
                json!({"ev":"connect","s":s,"how":how,"res":res})
            }
            "accept" => {
                let l = o["l"].as_u64().unwrap() as usize;
                let lport = self.slots.get(&l).map(|i| i.port).unwrap_or(0);
                self.sh.borrow_mut().xcmds.push_back(XCmd::Accept { s, l });
                self.sh.borrow_mut().pcmds.push_back(PCmd::ConnectTo { port: lport });
                self.steps(1);
                let r = self.wait_result(s);
                let res = r["res"].as_i64().unwrap();
                if res > 0 {
                    self.slots.insert(
                        s,
                        SlotInfo { lo: false, kind: "in".into(), port: res as u16, peer: r["peer"].as_u64().unwrap() as u16, r: true, w: true },
                    );
                }
                json!({"ev":"accept","s":s,"l":l,"res":res})
            }
            "drop" => {
                self.sh.borrow_mut().xcmds.push_back(XCmd::Drop { s });
                self.steps(1);
                if let Some(info) = self.slots.remove(&s) {
                    self.peer_close(&info);
                }
                json!({"ev":"drop","s":s})
            }
            "drop_half" => {
                let h = o["h"].as_str().unwrap().to_string();
                self.sh.borrow_mut().xcmds.push_back(XCmd::DropHalf { s, h: h.clone() });
                self.steps(1);
                let mut gone = None;
                if let Some(info) = self.slots.get_mut(&s) {
                    if h == "r" {
                        info.r = false;
                    } else {
                        info.w = false;
                    }
                    if !info.r && !info.w {
                        gone = Some(info.clone());
                    }
                }
                if let Some(info) = gone {
                    self.slots.remove(&s);
                    self.peer_close(&info);
                }
                json!({"ev":"drop_half","s":s,"h":h})
            }
            "crash" => {
                self.sim.crash("x");
                self.sh.borrow_mut().xcmds.clear();
                self.sh.borrow_mut().results.clear();
                self.steps(2);
                self.sh.borrow_mut().pcmds.push_back(PCmd::CloseAll);
                self.steps(3);
                self.sim.bounce("x");
                self.steps(2);
                self.slots.clear();
                json!({"ev":"crash"})
            }
            other => panic!("unknown ports op {other}"),
        };
        self.steps(1);
        ev
    }
}

// ---- DNS ------------------------------------------------------------------

fn dns_name(n: u64) -> String {
    // distinct prefixes so that prefix patterns select non-trivial subsets
    let pre = ["alpha", "beta", "gamma", "delta"][(n % 4) as usize];
    format!("{pre}-{n}")
}

fn dns_name_id(s: &str) -> u64 {
    s.rsplit_once('-').and_then(|x| x.1.parse().ok()).unwrap_or(0)
}

fn addr_offset(a: IpAddr) -> i64 {
    match a {
        IpAddr::V4(v) => {
            let o = v.octets();
            if o[0] == 192 && o[1] == 168 {
                (o[2] as i64) * 256 + o[3] as i64
            } else {
                -1
            }
        }
        IpAddr::V6(v) => {
            let s = v.segments();
            if s[0] == 0xfe80 && s[1] == 0 && s[2] == 0 && s[3] == 0 && s[4] == 0 && s[5] == 0 {
                ((s[6] as i64) << 16) | s[7] as i64
            } else {
                -1
            }
        }
    }
}

fn offset_addr(k: u64, v6: bool) -> IpAddr {
    if v6 {
        IpAddr::V6(Ipv6Addr::new(0xfe80, 0, 0, 0, 0, 0, (k >> 16) as u16, (k & 0xffff) as u16))
    } else {
        IpAddr::V4(Ipv4Addr::new(192, 168, (k >> 8) as u8, (k & 0xff) as u8))
    }
}

struct DnsRun<'a> {
    sim: turmoil::Sim<'a>,
    v6: bool,
    universe: u64,
}

impl<'a> DnsRun<'a> {
    fn new(v6: bool, universe: u64) -> DnsRun<'a> {
        let mut b = turmoil::Builder::new();
        if v6 {
            b.ip_version(turmoil::IpVersion::V6);
        }
        rec::take();
        rec::emit(json!({"ev":"reset"}));
        DnsRun { sim: b.build(), v6, universe }
    }

    fn op(&mut self, o: &Value, variant: u64) -> Value {
        match o["a"].as_str().unwrap() {
            "lookup" => {
                let n = o["n"].as_u64().unwrap();
                let a = if variant % 2 == 0 { self.sim.lookup(dns_name(n)) } else { self.sim.lookup(&dns_name(n)[..]) };
                json!({"ev":"lookup","n":n,"res":addr_offset(a)})
            }
            "reverse" => {
                let k = o["k"].as_i64().unwrap();
                // k > 0: offset inside the simulated subnet; k < 0: an address the DNS never hands out
                // (-1 loopback, -2 outside the subnet, -3 the other address family, -4 the subnet's
                // network address with the same low bits as a registered name in the next /16 block)
                let low = (variant % 3 + 1) as u8;
                let a: IpAddr = match (k, self.v6) {
                    (k, v6) if k > 0 => offset_addr(k as u64, v6),
                    (-1, false) => IpAddr::V4(Ipv4Addr::LOCALHOST),
                    (-1, true) => IpAddr::V6(Ipv6Addr::LOCALHOST),
                    (-2, false) => IpAddr::V4(Ipv4Addr::new(10, 0, 0, low)),
                    (-2, true) => IpAddr::V6(Ipv6Addr::new(0xfd00, 0, 0, 0, 0, 0, 0, low as u16)),
                    (-3, false) => IpAddr::V6(Ipv6Addr::new(0xfe80, 0, 0, 0, 0, 0, 0, low as u16)),
                    (-3, true) => IpAddr::V4(Ipv4Addr::new(192, 168, 0, low)),
                    (_, false) => IpAddr::V4(Ipv4Addr::new(192, 169, 0, low)),
                    (_, true) => IpAddr::V6(Ipv6Addr::new(0xfe80, 0, 0, 1, 0, 0, 0, low as u16)),
                };
                let r = self.sim.reverse_lookup(a);
                json!({"ev":"reverse","k":k,"res":r.map(|s| dns_name_id(&s)).unwrap_or(0),"addr":a.to_string()})
            }
            "literal" => {
                let k = o["k"].as_u64().unwrap();
                // inside the subnet (possibly unassigned), outside it, and the other family
                let lit: IpAddr = match variant % 4 {
                    0 => offset_addr(k + 7, self.v6),
                    1 => "10.1.2.3".parse().unwrap(),
                    2 => "fd00::1234".parse().unwrap(),
                    _ => offset_addr(1, self.v6),
                };
                let got = match variant % 3 {
                    0 => self.sim.lookup(lit),
                    1 => self.sim.lookup(lit.to_string()),
                    _ => self.sim.lookup_many(lit).first().copied().unwrap_or(lit),
                };
                json!({"ev":"literal","same":got == lit,"lit":lit.to_string()})
            }
            "regex" => {
                let (pat, m): (String, Vec<u64>) = if let Some(p) = o["pat"].as_str() {
                    let re = regex::Regex::new(p).unwrap();
                    (p.to_string(), (1..=self.universe).filter(|n| re.is_match(&dns_name(*n))).collect())
                } else {
                    let m: Vec<u64> = o["m"].as_array().unwrap().iter().map(|v| v.as_u64().unwrap()).collect();
                    let alts: Vec<String> = m.iter().map(|n| dns_name(*n)).collect();
                    (if alts.is_empty() { "^$".to_string() } else { format!("^({})$", alts.join("|")) }, m)
                };
                let res = self.sim.lookup_many(regex::Regex::new(&pat).unwrap());
                let res: Vec<i64> = res.into_iter().map(addr_offset).collect();
                json!({"ev":"regex","m":m,"res":res,"pat":pat})
            }
            other => panic!("unknown dns op {other}"),
        }
    }
}

fn is_dns_op(a: &str) -> bool {
    matches!(a, "lookup" | "reverse" | "literal" | "regex")
}

/// Replay one TLC history; returns (first result divergence, first hook-table
/// divergence, recorded trace, nontrivial).  Only a result divergence can make
/// the PropSpec reject (it sees results only); table divergences are drift.
fn ports_replay_one(beh: &[Value], lo: u16, hi: u16, v6: bool) -> (Option<Value>, Option<Value>, Vec<Value>, bool) {
    let mut rdiv = None;
    let mut tdiv = None;
    let mut nontrivial = false;
    let dns_mode = beh.first().map(|e| is_dns_op(e["op"]["a"].as_str().unwrap())).unwrap_or(false);
    if dns_mode {
        let mut run = DnsRun::new(v6, 16);
        for (i, e) in beh.iter().enumerate() {
            let ev = run.op(&e["op"], i as u64);
            let a = e["op"]["a"].as_str().unwrap();
            let ok = match a {
                "literal" => ev["same"] == json!(true),
                _ => ev["res"] == e["op"]["res"],
            };
            if a != "lookup" {
                nontrivial = true;
            }
            rec::emit(ev.clone());
            if !ok && rdiv.is_none() {
                rdiv = Some(json!({"at":i,"what":a,"want":e["op"],"got":ev}));
            }
        }
        return (rdiv, None, rec::take(), nontrivial);
    }
    let mut run = PortsRun::new(lo, hi, v6, 1);
    for (i, e) in beh.iter().enumerate() {
        let ev = run.op(&e["op"]);
        let a = e["op"]["a"].as_str().unwrap();
        if matches!(a, "drop" | "drop_half" | "crash") {
            nontrivial = true;
        }
        rec::emit(ev.clone());
        let t = run.tables();
        rec::emit(t.clone());
        if rdiv.is_none() && ev.get("res").is_some() && ev["res"] != e["op"]["res"] {
            rdiv = Some(json!({"at":i,"what":"result","want":e["op"],"got":ev}));
        }
        if tdiv.is_none() && (t["cur"] != e["cur"] || t["udp"] != e["udp"] || t["tcp"] != e["tcp"] || t["str"] != e["str"]) {
            tdiv = Some(json!({"at":i,"what":"tables","want":{"cur":e["cur"],"udp":e["udp"],"tcp":e["tcp"],"str":e["str"]},"got":t}));
        }
    }
    (rdiv, tdiv, rec::take(), nontrivial)
}

fn main_ports_replay(args: &[String]) {
    let inp = util::arg(args, "in").expect("in=");
    let out = util::arg(args, "out").expect("out=");
    let traces = util::arg(args, "traces");
    let lo = util::arg_u64(args, "lo", 49152) as u16;
    let hi = util::arg_u64(args, "hi", 49154) as u16;
    let v6 = util::arg_u64(args, "v6", 0) == 1;
    let keep = util::arg_u64(args, "keep", 0) == 1;
    let text = std::fs::read_to_string(&inp).expect("read behaviours");
    let (mut total, mut nontrivial, mut ndiv, mut nres) = (0u64, 0u64, 0u64, 0u64);
    let mut divs: Vec<Value> = Vec::new();
    let mut tdivs: Vec<Value> = Vec::new();
    let mut samples: Vec<Value> = Vec::new();
    // every result-divergent behaviour's trace, concatenated (each starts with a reset event that
    // carries the behaviour's line number): the PropSpec judges all of them in one TLC run
    let mut divs_all: Vec<Value> = Vec::new();
    let mut divs_all_lines: Vec<Value> = Vec::new();
    for (k, line) in text.lines().enumerate() {
        if line.trim().is_empty() {
            continue;
        }
        let beh: Vec<Value> = serde_json::from_str(line).expect("behaviour json");
        let (rd, td, tr, nt) = match { CURRENT_CASE.store(k as i64, std::sync::atomic::Ordering::Relaxed); catch1(|| ports_replay_one(&beh, lo, hi, v6)) } {
            Ok(x) => x,
            Err(p) => (Some(json!({"what":"panic","msg":p})), None, vec![], false),
        };
        total += 1;
        if nt {
            nontrivial += 1;
        }
        if samples.len() < 2 && nt && beh.len() >= 3 {
            samples.push(json!({"behaviour": beh, "trace_excerpt": tr.iter().take(10).collect::<Vec<_>>()}));
        }
        if rd.is_some() || td.is_some() {
            ndiv += 1;
        }
        if let (true, Some(dir)) = (keep, &traces) {
            util::write_ndjson(&format!("{dir}/all-{k}.ndjson"), &tr);
        }
        if rd.is_some() && divs_all.len() + tr.len() <= 150_000 {
            let mut first = true;
            for e in &tr {
                let mut e = e.clone();
                if first {
                    e["line"] = json!(k);
                    first = false;
                }
                divs_all.push(e);
            }
            divs_all_lines.push(json!(k));
        }
        if let Some(mut d) = rd {
            nres += 1;
            if divs.len() < 25 || (d["what"] == "panic" && divs.iter().filter(|x| x["what"] == "panic").count() < 3) {
                d["line"] = json!(k);
                d["behaviour"] = json!(beh);
                if let Some(dir) = &traces {
                    let p = format!("{dir}/div-{}.ndjson", divs.len());
                    util::write_ndjson(&p, &tr);
                    d["trace"] = json!(p);
                }
                divs.push(d);
            }
        } else if let Some(mut d) = td {
            if tdivs.len() < 3 {
                d["line"] = json!(k);
                d["behaviour"] = json!(beh);
                tdivs.push(d);
            }
        }
    }
    if let Some(dir) = &traces {
        util::write_ndjson(&format!("{dir}/divs-all.ndjson"), &divs_all);
    }
    let summary = json!({"behaviours": total, "nontrivial": nontrivial, "divergent": ndiv, "result_divergent": nres,
        "divergences": divs, "table_divergences": tdivs, "samples": samples, "judged_lines": divs_all_lines});
    std::fs::write(&out, serde_json::to_string(&summary).unwrap()).unwrap();
    println!("replayed={total} nontrivial={nontrivial} divergent={ndiv} result_divergent={nres}");
}

/// Seeded random histories on the host under test (ports) and random DNS sessions.
fn main_ports_random(args: &[String]) {
    let seed = util::arg_u64(args, "seed", 1);
    let runs = util::arg_u64(args, "runs", 10);
    let nops = util::arg_u64(args, "ops", 40);
    let lo = util::arg_u64(args, "lo", 49152) as u16;
    let hi = util::arg_u64(args, "hi", 49156) as u16;
    let maxsock = util::arg_u64(args, "maxsock", 8) as usize;
    let names = util::arg_u64(args, "names", 40);
    let dnsops = util::arg_u64(args, "dnsops", nops * 2);
    let dnsfill = util::arg_u64(args, "dnsfill", 0).min(names);
    let out = util::arg(args, "out").expect("out=");
    let mut rng = SmallRng::seed_from_u64(seed ^ 0x706f7274);
    let mut all: Vec<Value> = Vec::new();
    let (mut nport, mut ndns) = (0u64, 0u64);
    let fixed: Vec<u16> = vec![lo + 1, hi, 9];
    for r in 0..runs {
        let v6 = r % 2 == 1;
        // ---- ports session
        let mut run = PortsRun::new(lo, hi, v6, seed * 1000 + r);
        let mut nin = 0;
        for _ in 0..nops {
            let free = (1..=maxsock).find(|s| !run.slots.contains_key(s));
            let live: Vec<usize> = run.slots.keys().copied().collect();
            let lsts: Vec<usize> = run.slots.iter().filter(|(_, i)| i.kind == "lst" && !i.lo).map(|(s, _)| *s).collect();
            let strs: Vec<usize> = run.slots.iter().filter(|(_, i)| i.kind == "out" || i.kind == "in").map(|(s, _)| *s).collect();
            let pick = rng.random_range(0..100);
            let o = if let (true, Some(s)) = (pick < 55, free) {
                match rng.random_range(0..9) {
                    0 | 1 => json!({"a":"bind","proto":"udp","kind": if rng.random_bool(0.4) {"lo"} else {"any"},"s":s,"p": if rng.random_bool(0.6) {0} else {fixed[rng.random_range(0..fixed.len())]}}),
                    2 | 3 => json!({"a":"bind","proto":"tcp","kind": if rng.random_bool(0.3) {"lo"} else {"any"},"s":s,"p": if rng.random_bool(0.6) {0} else {fixed[rng.random_range(0..fixed.len())]}}),
                    4 | 5 => json!({"a":"connect","s":s,"how":"ok"}),
                    6 => {
                        let how = ["refused", "noroute", "cancel", "hang"][rng.random_range(0..4)];
                        json!({"a":"connect","s":s,"how":how})
                    }
                    _ => {
                        if !lsts.is_empty() && nin < (hi - lo + 1) {
                            nin += 1;
                            json!({"a":"accept","s":s,"l":lsts[rng.random_range(0..lsts.len())]})
                        } else {
                            json!({"a":"connect","s":s,"how":"refused"})
                        }
                    }
                }
            } else if pick < 90 && !live.is_empty() {
                if !strs.is_empty() && rng.random_bool(0.4) {
                    let s = strs[rng.random_range(0..strs.len())];
                    let i = &run.slots[&s];
                    let h = if i.r && (!i.w || rng.random_bool(0.5)) { "r" } else { "w" };
                    json!({"a":"drop_half","s":s,"h":h})
                } else {
                    json!({"a":"drop","s":live[rng.random_range(0..live.len())]})
                }
            } else if pick >= 96 && !live.is_empty() {
                nin = 0;
                json!({"a":"crash"})
            } else {
                continue;
            };
            let ev = run.op(&o);
            rec::emit(ev);
            rec::emit(run.tables());
            nport += 1;
        }
        all.extend(rec::take());
        // ---- DNS session
        let mut d = DnsRun::new(v6, names);
        let mut registered: Vec<u64> = Vec::new();
        // fill: register `dnsfill` distinct names, look each up again, reverse-resolve each address
        for n in 1..=dnsfill {
            rec::emit(d.op(&json!({"a":"lookup","n":n}), n));
            registered.push(n);
            ndns += 1;
        }
        for n in 1..=dnsfill {
            rec::emit(d.op(&json!({"a":"lookup","n":n}), n + 1));
            rec::emit(d.op(&json!({"a":"reverse","k":n}), n));
            ndns += 2;
        }
        if dnsfill > 0 {
            // a host registered by literal address gets no name, and no name's address
            let lit: IpAddr = if v6 { "fd00::9".parse().unwrap() } else { "10.1.0.9".parse().unwrap() };
            d.sim.client(lit, async { Ok(()) });
            let r = d.sim.reverse_lookup(lit);
            rec::emit(json!({"ev":"reverse","k":-2,"res":r.map(|s| dns_name_id(&s)).unwrap_or(0),"addr":lit.to_string()}));
            for k in 1..=4i64 {
                for v in 0..3u64 {
                    rec::emit(d.op(&json!({"a":"reverse","k":-k}), v));
                    ndns += 1;
                }
            }
        }
        for i in 0..dnsops {
            let o = match rng.random_range(0..10) {
                0..=4 => {
                    let n = rng.random_range(1..=names);
                    if !registered.contains(&n) {
                        registered.push(n);
                    }
                    json!({"a":"lookup","n":n})
                }
                5 => json!({"a":"reverse","k":rng.random_range(1..=(registered.len() as i64 + 2))}),
                6 => json!({"a":"reverse","k":-rng.random_range(1..=4i64)}),
                7 => json!({"a":"literal","k":rng.random_range(0..500)}),
                _ => {
                    let pats = ["^alpha", "^beta-1", "a-\\d$", "^(gamma|delta)-", "-7$", ".*", "^nomatch$", "^delta-[0-9]+$"];
                    json!({"a":"regex","pat":pats[rng.random_range(0..pats.len())]})
                }
            };
            let ev = d.op(&o, i + r);
            rec::emit(ev);
            ndns += 1;
        }
        all.extend(rec::take());
    }
    util::write_ndjson(&out, &all);
    println!("runs={runs} events={} port_ops={nport} dns_ops={ndns}", all.len());
}

// ===========================================================================
// MsgTcp (C02, C12)
//
// Hosts: clients "c1".."c{nh-1}" and the server "srv" (host nh).  In replay
// mode every client<->server link is held from the start, so each message a
// host sends stays in the link until the controller delivers it through
// Sim::links / SentRef::deliver, in the order of the TLC behaviour.  One model
// action = one puppet command (or controller call) + one Sim::step.

use tokio::io::{AsyncReadExt, AsyncWriteExt};
use turmoil::{Protocol, Segment};

enum End {
    Whole(TcpStream),
    Split(Option<OwnedReadHalf>, Option<OwnedWriteHalf>),
}

#[derive(Clone, Debug)]
enum TCmd {
    Bind { p: u64, kind: String },
    /// a listener shared by `workers` tasks, each parked in accept() and busy for a while after it returned
    BindPool { p: u64, kind: String, workers: usize },
    DropListener { p: u64 },
    Connect { c: u64, dst: String, dh: u64, p: u64, lo: bool },
    Poll { c: u64 },
    Cancel { c: u64 },
    Accept { p: u64 },
    Write { key: String, c: u64, s: u64, data: Vec<u8>, via: u8 },
    Shutdown { key: String, c: u64, s: u64 },
    Read { key: String, c: u64, s: u64, n: usize, peek: bool },
    DropHalf { key: String, c: u64, s: u64, h: String },
    DropStream { key: String, c: u64, s: u64 },
    /// into_split, both halves kept: later calls go through OwnedReadHalf / OwnedWriteHalf
    Split { key: String },
    /// turmoil::partition_oneway(from, to) called from host code (model hosts a -> b)
    CutOneway { from: String, to: String, a: usize, b: usize },
}

#[derive(Default)]
struct TcpShared {
    cmds: Vec<VecDeque<TCmd>>, // index = host (1-based)
    v6: bool,
}

fn real_port(p: u64) -> u16 {
    7000 + p as u16
}

fn errname(e: &std::io::Error) -> String {
    use std::io::ErrorKind::*;
    match e.kind() {
        ConnectionRefused => "refused".into(),
        ConnectionReset => "reset".into(),
        BrokenPipe => "brokenpipe".into(),
        NotConnected => "notconnected".into(),
        WouldBlock => "wouldblock".into(),
        AddrInUse => "inuse".into(),
        k => format!("err:{k:?}"),
    }
}

async fn end_read(end: &mut End, n: usize, peek: bool) -> (String, Vec<u8>) {
    let mut buf = vec![0u8; n];
    let r = match end {
        End::Whole(st) => {
            if peek {
                let mut f = Box::pin(st.peek(&mut buf));
                poll_once(&mut f).await
            } else {
                let mut f = Box::pin(st.read(&mut buf));
                poll_once(&mut f).await
            }
        }
        End::Split(Some(r), _) => {
            if peek {
                let mut f = Box::pin(r.peek(&mut buf));
                poll_once(&mut f).await
            } else {
                let mut f = Box::pin(r.read(&mut buf));
                poll_once(&mut f).await
            }
        }
        _ => return ("nohalf".into(), vec![]),
    };
    match r {
        Poll::Pending => ("pending".into(), vec![]),
        Poll::Ready(Ok(0)) => (if n == 0 { "zero" } else { "eof" }.into(), vec![]),
        Poll::Ready(Ok(k)) => ("data".into(), buf[..k].to_vec()),
        Poll::Ready(Err(e)) => (errname(&e), vec![]),
    }
}

async fn end_write(end: &mut End, data: &[u8], via: u8) -> (String, usize) {
    let r: Poll<std::io::Result<usize>> = match end {
        End::Whole(st) => {
            if via == 1 {
                Poll::Ready(st.try_write(data))
            } else {
                let mut f = Box::pin(st.write(data));
                poll_once(&mut f).await
            }
        }
        End::Split(_, Some(w)) => {
            let mut f = Box::pin(w.write(data));
            poll_once(&mut f).await
        }
        _ => return ("nohalf".into(), 0),
    };
    match r {
        Poll::Pending => ("wouldblock".into(), 0),
        Poll::Ready(Ok(k)) => ("ok".into(), k),
        Poll::Ready(Err(e)) => (errname(&e), 0),
    }
}

async fn end_shutdown(end: &mut End) -> String {
    let r = match end {
        End::Whole(st) => {
            let mut f = Box::pin(st.shutdown());
            poll_once(&mut f).await
        }
        End::Split(_, Some(w)) => {
            let mut f = Box::pin(w.shutdown());
            poll_once(&mut f).await
        }
        _ => return "nohalf".into(),
    };
    match r {
        Poll::Pending => "pending".into(),
        Poll::Ready(Ok(())) => "ok".into(),
        Poll::Ready(Err(e)) => errname(&e),
    }
}

/// Execute the commands scripted for this turn; every result is recorded as an event.
async fn tcp_exec(
    h: usize,
    v6: bool,
    cmds: Vec<TCmd>,
    listeners: &mut BTreeMap<u64, TcpListener>,
    futs: &mut BTreeMap<u64, BoxFut<std::io::Result<TcpStream>>>,
    ends: &mut BTreeMap<String, End>,
) {
    for cmd in cmds {
        match cmd {
            TCmd::Bind { p, kind } => {
                let ip: IpAddr = if kind == "lo" {
                    if v6 {
                        IpAddr::V6(Ipv6Addr::LOCALHOST)
                    } else {
                        IpAddr::V4(Ipv4Addr::LOCALHOST)
                    }
                } else {
                    wildcard(v6)
                };
                let mut f = Box::pin(TcpListener::bind((ip, real_port(p))));
                let res = match futures_now(&mut f) {
                    Some(Ok(l)) => {
                        listeners.insert(p, l);
                        "ok".to_string()
                    }
                    Some(Err(e)) => errname(&e),
                    None => "pending".into(),
                };
                rec::emit(json!({"ev":"bind","h":h,"p":p,"kind":kind,"res":res}));
            }
            TCmd::BindPool { .. } => {}
            TCmd::CutOneway { from, to, a, b } => {
                turmoil::partition_oneway(from, to);
                // requests in flight in the cut direction would be doomed; the caller only cuts the
                // direction opposite to the requests it is interested in
                rec::emit(json!({"ev":"partition","dirs":[[a, b]],"doomed":[]}));
            }
            TCmd::DropListener { p } => {
                if listeners.remove(&p).is_some() {
                    rec::emit(json!({"ev":"drop_listener","h":h,"p":p}));
                }
            }
            TCmd::Connect { c, dst, dh, p, lo } => {
                rec::emit(json!({"ev":"connect_begin","c":c}));
                let mut f: BoxFut<std::io::Result<TcpStream>> = Box::pin(TcpStream::connect((dst, real_port(p))));
                let res = match poll_once(&mut f).await {
                    Poll::Pending => {
                        futs.insert(c, f);
                        "pending".to_string()
                    }
                    Poll::Ready(Ok(st)) => {
                        ends.insert(format!("c{c}"), End::Whole(st));
                        "ok".into()
                    }
                    Poll::Ready(Err(e)) => errname(&e),
                };
                rec::emit(json!({"ev":"connect","c":c,"h":h,"dh":dh,"dp":p,"lo":lo,"res":res}));
            }
            TCmd::Poll { c } => {
                let Some(mut f) = futs.remove(&c) else { continue };
                let ev = match poll_once(&mut f).await {
                    Poll::Pending => {
                        futs.insert(c, f);
                        json!({"ev":"poll","c":c,"res":"pending","local":"","peer":""})
                    }
                    Poll::Ready(Ok(st)) => {
                        let (l, p) = (st.local_addr().unwrap().to_string(), st.peer_addr().unwrap().to_string());
                        ends.insert(format!("c{c}"), End::Whole(st));
                        json!({"ev":"poll","c":c,"res":"ok","local":l,"peer":p})
                    }
                    Poll::Ready(Err(e)) => json!({"ev":"poll","c":c,"res":errname(&e),"local":"","peer":""}),
                };
                rec::emit(ev);
            }
            TCmd::Cancel { c } => {
                if futs.remove(&c).is_some() {
                    rec::emit(json!({"ev":"cancel","c":c}));
                }
            }
            TCmd::Accept { p } => {
                let Some(l) = listeners.get(&p) else { continue };
                let mut f = Box::pin(l.accept());
                let ev = match poll_once(&mut f).await {
                    Poll::Pending => json!({"ev":"accept","h":h,"p":p,"res":"pending","c":0}),
                    Poll::Ready(Ok((st, origin))) => {
                        let local = st.local_addr().unwrap().to_string();
                        // a later connector may re-use the origin address: every accepted stream gets a key of its own
                        let key = format!("{origin}#{}", ends.len() + listeners.len() + futs.len() + rec::len());
                        ends.insert(key.clone(), End::Whole(st));
                        json!({"ev":"accept","h":h,"p":p,"res":"ok","o":origin.to_string(),"key":key,"local":local,"peer":origin.to_string()})
                    }
                    Poll::Ready(Err(e)) => json!({"ev":"accept","h":h,"p":p,"res":errname(&e),"c":0}),
                };
                rec::emit(ev);
            }
            TCmd::Write { key, c, s, data, via } => {
                let Some(end) = ends.get_mut(&key) else { continue };
                let (res, k) = end_write(end, &data, via).await;
                rec::emit(json!({"ev":"write","c":c,"s":s,"res":res,"data":data[..k].to_vec(),"len":data.len(),"via":via}));
            }
            TCmd::Shutdown { key, c, s } => {
                let Some(end) = ends.get_mut(&key) else { continue };
                let res = end_shutdown(end).await;
                rec::emit(json!({"ev":"shutdown","c":c,"s":s,"res":res}));
            }
            TCmd::Read { key, c, s, n, peek } => {
                let Some(end) = ends.get_mut(&key) else { continue };
                let (res, got) = end_read(end, n, peek).await;
                rec::emit(json!({"ev": if peek {"peek"} else {"read"},"c":c,"s":s,"n":n,"res":res,"got":got}));
            }
            TCmd::DropHalf { key, c, s, h: half } => {
                let Some(end) = ends.remove(&key) else { continue };
                let (mut r, mut w) = match end {
                    End::Whole(st) => {
                        let (r, w) = st.into_split();
                        (Some(r), Some(w))
                    }
                    End::Split(r, w) => (r, w),
                };
                if half == "r" {
                    r = None;
                } else {
                    w = None;
                }
                rec::emit(json!({"ev":"drop_half","c":c,"s":s,"h":half}));
                if r.is_some() || w.is_some() {
                    ends.insert(key, End::Split(r, w));
                }
            }
            TCmd::Split { key } => {
                if matches!(ends.get(&key), Some(End::Whole(_))) {
                    if let Some(End::Whole(st)) = ends.remove(&key) {
                        let (r, w) = st.into_split();
                        ends.insert(key, End::Split(Some(r), Some(w)));
                    }
                }
            }
            TCmd::DropStream { key, c, s } => {
                if let Some(end) = ends.remove(&key) {
                    let end = match end {
                        End::Split(Some(r), Some(w)) => End::Whole(r.reunite(w).expect("reunite")),
                        e => e,
                    };
                    drop(end);
                    rec::emit(json!({"ev":"drop_stream","c":c,"s":s}));
                }
            }
        }
    }
}

/// A listener shared by several tasks that are parked in accept() at the same time.
struct Pool {
    lst: Option<Rc<TcpListener>>,
    workers: Vec<tokio::task::JoinHandle<()>>,
    parked: Rc<std::cell::Cell<usize>>,
}

type Inbox = Rc<RefCell<Vec<(String, TcpStream)>>>;

async fn pool_worker(h: usize, p: u64, lst: Rc<TcpListener>, parked: Rc<std::cell::Cell<usize>>, inbox: Inbox, serve: Duration) {
    loop {
        parked.set(parked.get() + 1);
        let r = lst.accept().await;
        parked.set(parked.get() - 1);
        let Ok((st, origin)) = r else { return };
        let local = st.local_addr().unwrap().to_string();
        let key = format!("{origin}#w{}", rec::len());
        rec::emit(json!({"ev":"accept","h":h,"p":p,"res":"ok","o":origin.to_string(),"key":key,"local":local,"peer":origin.to_string()}));
        inbox.borrow_mut().push((key, st));
        // the worker "serves" its connection for a while before it accepts again
        tokio::time::sleep(serve).await;
    }
}

async fn tcp_puppet(h: usize, sh: Rc<RefCell<TcpShared>>, nt: Rc<Notify>) -> turmoil::Result {
    let v6 = sh.borrow().v6;
    let mut listeners = BTreeMap::new();
    let mut futs = BTreeMap::new();
    let mut ends = BTreeMap::new();
    let mut pools: BTreeMap<u64, Pool> = BTreeMap::new();
    let inbox: Inbox = Rc::new(RefCell::new(Vec::new()));
    loop {
        nt.notified().await;
        rec::emit(json!({"ev":"turn","h":h}));
        for (k, st) in inbox.borrow_mut().drain(..) {
            ends.insert(k, End::Whole(st));
        }
        let mut cmds: Vec<TCmd> = sh.borrow_mut().cmds[h].drain(..).collect();
        // pool commands are handled here (they spawn / abort tasks), everything else by tcp_exec
        let mut rest = Vec::new();
        for c in cmds.drain(..) {
            match c {
                TCmd::BindPool { p, kind, workers } => {
                    let ip: IpAddr = if kind == "lo" { bind_ip(v6, true) } else { wildcard(v6) };
                    let mut f = Box::pin(TcpListener::bind((ip, real_port(p))));
                    let res = match futures_now(&mut f) {
                        Some(Ok(l)) => {
                            let lst = Rc::new(l);
                            let parked = Rc::new(std::cell::Cell::new(0usize));
                            let tick = Duration::from_millis(3);
                            let hs = (0..workers)
                                .map(|_| tokio::task::spawn_local(pool_worker(h, p, lst.clone(), parked.clone(), inbox.clone(), tick * 3)))
                                .collect();
                            pools.insert(p, Pool { lst: Some(lst), workers: hs, parked });
                            "ok".to_string()
                        }
                        Some(Err(e)) => errname(&e),
                        None => "pending".into(),
                    };
                    rec::emit(json!({"ev":"bind","h":h,"p":p,"kind":kind,"res":res}));
                }
                TCmd::DropListener { p } if pools.contains_key(&p) => {
                    if let Some(mut pool) = pools.remove(&p) {
                        for w in pool.workers.drain(..) {
                            w.abort();
                        }
                        // the aborted tasks still hold their clone of the listener until they are polled
                        tokio::task::yield_now().await;
                        pool.lst.take();
                        rec::emit(json!({"ev":"drop_listener","h":h,"p":p}));
                    }
                }
                other => rest.push(other),
            }
        }
        tcp_exec(h, v6, rest, &mut listeners, &mut futs, &mut ends).await;
        if !pools.is_empty() {
            // let the workers that were woken in this turn run, then look who is still parked
            for _ in 0..3 {
                tokio::task::yield_now().await;
            }
            for (k, st) in inbox.borrow_mut().drain(..) {
                ends.insert(k, End::Whole(st));
            }
            for (p, pool) in &pools {
                if pool.parked.get() > 0 {
                    rec::emit(json!({"ev":"accept_parked","h":h,"p":p}));
                }
            }
        }
        rec::emit(json!({"ev":"count","h":h,"n":turmoil::established_tcp_stream_count()}));
    }
}

#[derive(Clone, Debug, PartialEq)]
struct WireMsg {
    c: u64,
    to: u64,
    kind: String,
    seq: u64,
}

struct TcpRun<'a> {
    sim: turmoil::Sim<'a>,
    sh: Rc<RefCell<TcpShared>>,
    notifies: Vec<Rc<Notify>>,
    nh: usize,
    /// c -> local address of the connector (learned from the SYN's "Send" tracing event)
    syn_src: BTreeMap<u64, String>,
    pending_begin: Option<u64>,
    /// model-level events of this run (raw events are folded as they are drained)
    trace: Vec<Value>,
    /// results of the puppet commands of the last step
    last_results: Vec<Value>,
    /// random mode: links are not held, deliveries are read off turmoil's "Delivered" events
    random: bool,
    /// same-host connectors whose request travels through the loopback path (no "Send" event):
    /// their requests arrive in the order they were started (constant one-tick delay)
    loop_pending: VecDeque<u64>,
    /// the wire TLC predicted before the current action (replay mode): with a small ephemeral
    /// range two connectors share an address, and a message is then identified by its position
    model_wire: Vec<WireMsg>,
    /// connectors that gave up / were refused, and connectors already accepted (bookkeeping from
    /// the results of the calls; used to attribute an accepted origin address to a connector)
    dead: std::collections::BTreeSet<u64>,
    accepted: std::collections::BTreeSet<u64>,
    /// c -> the server puppet's key of the stream accepted for connector c
    srv_key: BTreeMap<u64, String>,
    /// addresses learned from tracing events: used for the labels of fidelity-level events only
    trace_src: BTreeMap<u64, String>,
    /// host index -> ip address (Sim::lookup)
    host_ip: Vec<String>,
    /// connectors whose request has left the link (random mode)
    arrived: std::collections::BTreeSet<u64>,
    /// same-host connectors in start order, cancelled connectors
    samehost: Vec<(u64, usize, bool)>, // (c, index of its connect event in the trace, via loopback address)
    cancelled: Vec<(u64, usize)>,      // (c, index of its cancel event in the trace)
    /// accepted streams whose origin is not attributed yet: (index in trace, origin, puppet key)
    unres_accepts: Vec<(usize, String, String)>,
}

fn addr_ip(a: &str) -> String {
    a.parse::<SocketAddr>().map(|x| x.ip().to_string()).unwrap_or_default()
}

/// An in-flight message as Sim::links shows it: the connector's address, the side it travels to.
#[derive(Clone, Debug, PartialEq)]
struct RawMsg {
    addr: String,
    to: u64,
    kind: String,
    seq: u64,
}

fn hostname(h: usize, nh: usize) -> String {
    if h == nh {
        "srv".into()
    } else {
        format!("c{h}")
    }
}

impl<'a> TcpRun<'a> {
    fn new(nh: usize, cap: usize, v6: bool, seed: u64, nports: u16) -> TcpRun<'a> {
        Self::with(nh, cap, v6, seed, 1, 1, 1, false, nports)
    }

    #[allow(clippy::too_many_arguments)]
    fn with(nh: usize, cap: usize, v6: bool, seed: u64, tick: u64, lmin: u64, lmax: u64, random: bool, nports: u16) -> TcpRun<'a> {
        let mut b = turmoil::Builder::new();
        if nports > 0 {
            b.ephemeral_ports(49152..=(49152 + nports - 1));
        }
        b.tick_duration(Duration::from_millis(tick))
            .min_message_latency(Duration::from_millis(lmin))
            .max_message_latency(Duration::from_millis(lmax))
            .tcp_capacity(cap)
            .rng_seed(seed)
            .simulation_duration(Duration::from_secs(36000));
        if v6 {
            b.ip_version(turmoil::IpVersion::V6);
        }
        let mut sim = b.build();
        let sh = Rc::new(RefCell::new(TcpShared { cmds: (0..=nh).map(|_| VecDeque::new()).collect(), v6 }));
        let mut notifies = vec![Rc::new(Notify::new())];
        for h in 1..=nh {
            let nt = Rc::new(Notify::new());
            notifies.push(nt.clone());
            let shc = sh.clone();
            sim.host(hostname(h, nh), move || tcp_puppet(h, shc.clone(), nt.clone()));
        }
        if !random {
            for h in 1..nh {
                sim.hold(hostname(h, nh), "srv");
            }
        }
        let mut r = TcpRun {
            sim,
            sh,
            notifies,
            nh,
            syn_src: BTreeMap::new(),
            pending_begin: None,
            trace: Vec::new(),
            last_results: Vec::new(),
            random,
            loop_pending: VecDeque::new(),
            model_wire: Vec::new(),
            dead: Default::default(),
            accepted: Default::default(),
            srv_key: BTreeMap::new(),
            trace_src: BTreeMap::new(),
            host_ip: Vec::new(),
            arrived: Default::default(),
            samehost: Vec::new(),
            cancelled: Vec::new(),
            unres_accepts: Vec::new(),
        };
        r.host_ip = (0..=nh).map(|h| if h == 0 { String::new() } else { r.sim.lookup(hostname(h, nh)).to_string() }).collect();
        r.raw_step();
        rec::take();
        r.trace.push(json!({"ev":"reset"}));
        r
    }

    fn raw_step(&mut self) {
        for h in 1..=self.nh {
            self.notifies[h].notify_one();
        }
        self.sim.step().expect("step");
    }

    /// One Sim::step; folds what was recorded into the model-level trace.
    ///
    /// Verdict-level observations come from the public API only: the results of the calls, the
    /// address of a connector from the SYN that Sim::links shows after its connect (or from
    /// local_addr() of the established stream), the arrival of a request from the difference of
    /// two Sim::links snapshots.  turmoil's tracing events only label the `deliver` events of the
    /// fidelity-level trace; if they are renamed or missing the consequence is drift.
    fn step(&mut self) {
        let before = self.raw_links();
        self.raw_step();
        let after = self.raw_links();
        self.last_results.clear();
        let raw: Vec<Value> = rec::take();
        // 1. connectors started in this step: their address is the source of the newest SYN of their host
        for e in &raw {
            if e["ev"].as_str() == Some("connect") && e["res"].as_str() == Some("pending") {
                let (c, h) = (e["c"].as_u64().unwrap_or(0), e["h"].as_u64().unwrap_or(0) as usize);
                if e["dh"].as_u64() == Some(h as u64) {
                    // no link involved: the address is learned from local_addr()
                    self.samehost.push((c, usize::MAX, e["lo"].as_bool().unwrap_or(false)));
                } else if let Some(ip) = self.host_ip.get(h) {
                    if let Some(m) = after.iter().rev().find(|m| m.kind == "syn" && m.to == 2 && addr_ip(&m.addr) == *ip) {
                        self.syn_src.insert(c, m.addr.clone());
                    }
                }
            }
        }
        // 2. requests that left the link during this step have been handed to their destination host
        let mut arrivals: Vec<u64> = Vec::new();
        if self.random {
            let mut rest: Vec<&RawMsg> = after.iter().filter(|m| m.kind == "syn").collect();
            for m in before.iter().filter(|m| m.kind == "syn") {
                if let Some(k) = rest.iter().position(|x| x.addr == m.addr) {
                    rest.remove(k);
                } else if let Some(c) = self
                    .syn_src
                    .iter()
                    .filter(|(c, a)| **a == m.addr && !self.arrived.contains(c))
                    .map(|(c, _)| *c)
                    .min()
                {
                    self.arrived.insert(c);
                    arrivals.push(c);
                }
            }
        }
        // 3. fold the recorded events
        for e in raw {
            let ev = e["ev"].as_str().unwrap_or("").to_string();
            // deliveries precede everything the destination host does in this step (its puppet's turn
            // and the tasks sharing its listener alike)
            if !arrivals.is_empty() && e["h"].as_u64() == Some(self.nh as u64) && (ev == "turn" || ev == "accept") {
                for c in arrivals.drain(..) {
                    self.trace.push(json!({"ev":"syn_arrive","c":c}));
                }
            }
            match ev.as_str() {
                "turn" => {
                    // deliveries happen at the start of the destination's turn
                    if e["h"].as_u64() == Some(self.nh as u64) {
                        for c in arrivals.drain(..) {
                            self.trace.push(json!({"ev":"syn_arrive","c":c}));
                        }
                    }
                }
                "t" => {
                    // fidelity-level labelling only
                    if let (Some(c), Some("Send")) = (self.pending_begin, e["message"].as_str()) {
                        if e["protocol"].as_str() == Some("TCP SYN") {
                            self.trace_src.insert(c, e["src"].as_str().unwrap_or("").to_string());
                        }
                    }
                    if self.random && e["message"].as_str() == Some("Delivered") {
                        let proto = e["protocol"].as_str().unwrap_or("");
                        let (src, dst) = (e["src"].as_str().unwrap_or(""), e["dst"].as_str().unwrap_or(""));
                        if proto == "TCP SYN" && self.resolve(src, dst).0 == 0 {
                            if let Some(c) = self.loop_pending.pop_front() {
                                self.trace_src.insert(c, src.to_string());
                            }
                        }
                        let (c, to) = self.resolve(src, dst);
                        if c != 0 && proto.starts_with("TCP") {
                            let (kind, data) = match proto {
                                "TCP SYN" => ("syn", vec![]),
                                "TCP FIN" => ("fin", vec![]),
                                "TCP RST" => ("rst", vec![]),
                                p => ("data", util::parse_hex_payload(p).unwrap_or_default()),
                            };
                            self.trace.push(json!({"ev":"deliver","c":c,"to":to,"kind":kind,"seq":0,"data":data}));
                        }
                    }
                }
                "connect_begin" => self.pending_begin = e["c"].as_u64(),
                "count" => self.trace.push(e),
                _ => {
                    let mut e = e;
                    if ev == "connect" {
                        self.pending_begin = None;
                        let c = e["c"].as_u64().unwrap_or(0);
                        let at = self.trace.len();
                        if let Some(x) = self.samehost.iter_mut().find(|x| x.0 == c) {
                            x.1 = at;
                        }
                        if e["res"].as_str() == Some("pending") && !self.syn_src.contains_key(&c) {
                            self.loop_pending.push_back(c);
                        }
                    }
                    if ev == "poll" && e["res"].as_str() == Some("ok") {
                        // local_addr() of the established stream names the connector's address
                        let c = e["c"].as_u64().unwrap_or(0);
                        let local = e["local"].as_str().unwrap_or("").to_string();
                        self.syn_src.entry(c).or_insert(local.clone());
                        if let Some(k) = self.unres_accepts.iter().position(|(_, o, _)| *o == local) {
                            let (idx, _, key) = self.unres_accepts.remove(k);
                            self.trace[idx]["c"] = json!(c);
                            self.accepted.insert(c);
                            self.srv_key.insert(c, key);
                        }
                    }
                    if let Some(o) = e.get("o").and_then(|v| v.as_str()).map(|s| s.to_string()) {
                        // the origin address names the connector; if several connectors used that address
                        // one after the other, it is the one still waiting (a dead one would have been skipped)
                        let cands: Vec<u64> = self.syn_src.iter().filter(|(_, a)| **a == o).map(|(c, _)| *c).collect();
                        let c = cands
                            .iter()
                            .find(|c| !self.dead.contains(c) && !self.accepted.contains(c))
                            .or(cands.first())
                            .copied()
                            .unwrap_or(0);
                        e["c"] = json!(c);
                        let key = e["key"].as_str().unwrap_or("").to_string();
                        if c != 0 {
                            self.accepted.insert(c);
                            self.srv_key.insert(c, key);
                        } else {
                            // a same-host connector that has not looked at its stream yet: resolved when it does
                            self.unres_accepts.push((self.trace.len(), o, key));
                        }
                    }
                    let cc = e["c"].as_u64().unwrap_or(0);
                    match (ev.as_str(), e["res"].as_str()) {
                        ("cancel", _) => {
                            self.dead.insert(cc);
                            self.cancelled.push((cc, self.trace.len()));
                        }
                        ("connect", Some(r)) | ("poll", Some(r)) if r != "pending" && r != "ok" => {
                            self.dead.insert(cc);
                        }
                        _ => {}
                    }
                    self.last_results.push(e.clone());
                    self.trace.push(e);
                }
            }
        }
        for c in arrivals.drain(..) {
            self.trace.push(json!({"ev":"syn_arrive","c":c}));
        }
        self.trace.push(json!({"ev":"step"}));
    }

    /// End of a run: accepted streams whose connector never looked at its stream (a same-host
    /// connector abandoned after the accept) are attributed by elimination, in start order.
    fn finalize(&mut self) {
        let pending: Vec<(usize, String, String)> = std::mem::take(&mut self.unres_accepts);
        for (idx, o, key) in pending {
            // a connector that was waiting when the accept returned and gave up afterwards
            let lo = o.parse::<SocketAddr>().map(|a| a.ip().is_loopback()).unwrap_or(false);
            let cand = self
                .samehost
                .iter()
                .filter(|(c, at, l)| {
                    *l == lo
                        && *at < idx
                        && !self.accepted.contains(c)
                        && (self.cancelled.iter().any(|(x, t)| x == c && *t > idx) || !self.dead.contains(c))
                })
                .map(|x| x.0)
                .next();
            if let Some(c) = cand {
                self.trace[idx]["c"] = json!(c);
                self.accepted.insert(c);
                self.srv_key.insert(c, key);
            }
        }
    }

    fn key(&self, c: u64, s: u64) -> String {
        if s == 1 {
            format!("c{c}")
        } else {
            self.srv_key.get(&c).cloned().unwrap_or_default()
        }
    }

    fn resolve(&self, src: &str, dst: &str) -> (u64, u64) {
        for map in [&self.syn_src, &self.trace_src] {
            // the latest connector that used the address
            for (c, a) in map.iter().rev() {
                if a == src {
                    return (*c, 2);
                }
                if a == dst {
                    return (*c, 1);
                }
            }
        }
        (0, 0)
    }

    /// Sim::links, link by link, in queue order.
    fn raw_links(&self) -> Vec<RawMsg> {
        let mut raw: Vec<RawMsg> = Vec::new();
        self.sim.links(|links| {
            for link in links {
                for sent in link {
                    let (src, dst) = sent.pair();
                    let (kind, seq) = match sent.protocol() {
                        Protocol::Tcp(Segment::Syn(_)) => ("syn", 0),
                        Protocol::Tcp(Segment::Data(seq, _)) => ("data", *seq),
                        Protocol::Tcp(Segment::Fin(seq)) => ("fin", *seq),
                        Protocol::Tcp(Segment::Rst) => ("rst", 0),
                        _ => ("other", 0),
                    };
                    // listeners use ports 7001.. ; the other end is the connector
                    let to_server = (7001..7100).contains(&dst.port()) && !(7001..7100).contains(&src.port());
                    let (addr, to) = if to_server { (src.to_string(), 2) } else { (dst.to_string(), 1) };
                    raw.push(RawMsg { addr, to, kind: kind.to_string(), seq });
                }
            }
        });
        raw
    }

    fn raw_of(&self, m: &WireMsg) -> RawMsg {
        RawMsg { addr: self.syn_src.get(&m.c).cloned().unwrap_or_default(), to: m.to, kind: m.kind.clone(), seq: m.seq }
    }

    /// Sim::links as model-level message ids (the latest connector that used the address).
    fn links(&self) -> Vec<WireMsg> {
        self.raw_links()
            .into_iter()
            .map(|r| {
                let c = self.syn_src.iter().filter(|(_, a)| **a == r.addr).map(|(c, _)| *c).max().unwrap_or(0);
                WireMsg { c, to: r.to, kind: r.kind, seq: r.seq }
            })
            .collect()
    }

    /// SentRef::deliver on the idx-th in-flight message (global order of Sim::links).
    fn deliver_index(&mut self, idx: usize) {
        let mut k = 0usize;
        self.sim.links(|links| {
            for link in links {
                for sent in link {
                    if k == idx {
                        sent.deliver();
                    }
                    k += 1;
                }
            }
        });
    }

    /// SentRef::deliver on the in-flight message the model calls m.  Messages of connectors that
    /// share an address look alike on the wire: the model's queue position tells them apart.
    fn deliver(&mut self, m: &WireMsg) -> bool {
        let want = self.raw_of(m);
        let ord = match self.model_wire.iter().position(|x| x == m) {
            Some(p) => self.model_wire[..p].iter().filter(|x| self.raw_of(x) == want).count(),
            None => 0,
        };
        let raw = self.raw_links();
        let hits: Vec<usize> = raw.iter().enumerate().filter(|(_, r)| **r == want).map(|(i, _)| i).collect();
        match hits.get(ord).or(hits.first()) {
            Some(&idx) => {
                self.deliver_index(idx);
                true
            }
            None => false,
        }
    }

    fn cmd(&mut self, h: usize, c: TCmd) {
        self.sh.borrow_mut().cmds[h].push_back(c);
    }

    fn host_of_side(&self, c: u64, s: u64, conn_host: &BTreeMap<u64, usize>) -> usize {
        if s == 1 {
            *conn_host.get(&c).unwrap_or(&1)
        } else {
            self.nh
        }
    }

    fn counts(&self) -> Vec<u64> {
        (1..=self.nh)
            .map(|h| self.sim.verif_host_tables(hostname(h, self.nh)).tcp_streams.len() as u64)
            .collect()
    }
}

struct TcpCfg {
    nh: usize,
    cap: usize,
    v6: bool,
    pre: bool,
    nports: u16,
}

/// Execute one model action (label `op`) on the run; returns the observation to
/// compare with the label (None for actions without a result).
fn tcp_do(run: &mut TcpRun<'_>, op: &Value, conn_host: &mut BTreeMap<u64, usize>, nact: u64) -> Option<Value> {
    let a = op["a"].as_str().unwrap();
    let c = op["c"].as_u64().unwrap_or(0);
    let s = op["s"].as_u64().unwrap_or(0);
    let nh = run.nh;
    match a {
        "bind" => {
            run.cmd(nh, TCmd::Bind { p: op["p"].as_u64().unwrap(), kind: op["kind"].as_str().unwrap().into() });
            run.step();
        }
        "drop_listener" => {
            run.cmd(nh, TCmd::DropListener { p: op["p"].as_u64().unwrap() });
            run.step();
        }
        "connect" => {
            let h = op["h"].as_u64().unwrap() as usize;
            conn_host.insert(c, h);
            let dk = op["dk"].as_str().unwrap_or("srv");
            let none = dk != "srv";
            let v6 = run.sh.borrow().v6;
            let dst = match (dk, v6) {
                ("none", true) => "fd00::99".to_string(),
                ("none", false) => "10.99.99.99".to_string(),
                ("unspec", true) => "::".to_string(),
                ("unspec", false) => "0.0.0.0".to_string(),
                _ => "srv".to_string(),
            };
            run.cmd(h, TCmd::Connect { c, dst, dh: if none { 0 } else { nh as u64 }, p: op["p"].as_u64().unwrap(), lo: false });
            run.step();
        }
        "poll" => {
            run.cmd(*conn_host.get(&c).unwrap_or(&1), TCmd::Poll { c });
            run.step();
        }
        "cancel" => {
            run.cmd(*conn_host.get(&c).unwrap_or(&1), TCmd::Cancel { c });
            run.step();
        }
        "accept" => {
            run.cmd(nh, TCmd::Accept { p: op["p"].as_u64().unwrap() });
            run.step();
        }
        "write" => {
            let data: Vec<u8> = op["data"].as_array().unwrap().iter().map(|v| v.as_u64().unwrap() as u8).collect();
            let h = run.host_of_side(c, s, conn_host);
            let key = run.key(c, s);
            let via = match op["via"].as_str() {
                Some("try") => 1,
                Some("poll") => 0,
                _ => (nact % 2) as u8,
            };
            run.cmd(h, TCmd::Write { key, c, s, data, via });
            run.step();
        }
        "shutdown" => {
            let h = run.host_of_side(c, s, conn_host);
            let key = run.key(c, s);
            run.cmd(h, TCmd::Shutdown { key, c, s });
            run.step();
        }
        "read" | "peek" => {
            let h = run.host_of_side(c, s, conn_host);
            let key = run.key(c, s);
            run.cmd(h, TCmd::Read { key, c, s, n: op["n"].as_u64().unwrap() as usize, peek: a == "peek" });
            run.step();
        }
        "drop_half" => {
            let h = run.host_of_side(c, s, conn_host);
            let key = run.key(c, s);
            run.cmd(h, TCmd::DropHalf { key, c, s, h: op["h"].as_str().unwrap().into() });
            run.step();
        }
        "drop_stream" => {
            let h = run.host_of_side(c, s, conn_host);
            let key = run.key(c, s);
            run.cmd(h, TCmd::DropStream { key, c, s });
            run.step();
        }
        "deliver" => {
            let m = WireMsg { c, to: op["to"].as_u64().unwrap(), kind: op["kind"].as_str().unwrap().into(), seq: op["seq"].as_u64().unwrap() };
            let ok = run.deliver(&m);
            run.step();
            if ok {
                run.trace.push(json!({"ev":"deliver","c":m.c,"to":m.to,"kind":m.kind,"seq":m.seq}));
                if m.kind == "syn" {
                    run.trace.push(json!({"ev":"syn_arrive","c":m.c}));
                }
            }
            return Some(json!({"ev":"deliver","found":ok}));
        }
        "partition" | "repair" => {
            let h = op["h"].as_u64().unwrap() as usize;
            let (cn, sn) = (hostname(h, nh), "srv".to_string());
            if a == "repair" {
                run.sim.repair(cn.clone(), sn.clone());
                if op.get("norehold").is_none() {
                    run.sim.hold(cn, sn);
                }
                run.trace.push(json!({"ev":"repair","dirs":[[h, nh],[nh, h]]}));
            } else {
                let how = op["how"].as_str().unwrap();
                let tos: Vec<u64> = match how {
                    "both" => vec![1, 2],
                    "c2s" => vec![2],
                    _ => vec![1],
                };
                // requests in flight in a cut direction, as Sim::links shows them before the call
                let doomed: Vec<u64> = run
                    .links()
                    .iter()
                    .filter(|m| m.kind == "syn" && tos.contains(&m.to) && conn_host.get(&m.c) == Some(&h))
                    .map(|m| m.c)
                    .collect();
                match how {
                    "both" => run.sim.partition(cn, sn),
                    "c2s" => run.sim.partition_oneway(cn, sn),
                    _ => run.sim.partition_oneway(sn, cn),
                }
                let mut dirs = Vec::new();
                if tos.contains(&2) {
                    dirs.push(json!([h, nh]));
                }
                if tos.contains(&1) {
                    dirs.push(json!([nh, h]));
                }
                run.trace.push(json!({"ev":"partition","dirs":dirs,"doomed":doomed}));
            }
            if op.get("nostep").is_none() && op.get("norehold").is_none() {
                run.step();
            }
        }
        "quiet" => {
            let empty = run.links().is_empty();
            if empty {
                run.trace.push(json!({"ev":"quiet"}));
            }
            run.step();
            return Some(json!({"ev":"quiet","empty":empty}));
        }
        "tick" => run.step(),
        other => panic!("unknown tcp action {other}"),
    }
    run.last_results.iter().find(|e| e["ev"].as_str() == Some(a)).cloned()
}

/// Does the observation of an action agree with the label TLC predicted?
fn tcp_agrees(op: &Value, obs: &Option<Value>) -> bool {
    let a = op["a"].as_str().unwrap();
    match a {
        "deliver" => obs.as_ref().map(|o| o["found"] == json!(true)).unwrap_or(false),
        "quiet" => obs.as_ref().map(|o| o["empty"] == json!(true)).unwrap_or(false),
        "tick" | "partition" | "repair" => true,
        "drop_listener" | "cancel" | "drop_half" | "drop_stream" => obs.is_some(),
        _ => {
            let Some(o) = obs else { return false };
            if op.get("res").is_some() && o["res"] != op["res"] {
                return false;
            }
            if a == "accept" && op["res"].as_str() == Some("ok") && o["c"] != op["c"] {
                return false;
            }
            if (a == "read" || a == "peek") && o["got"] != op["got"] {
                return false;
            }
            if a == "write" && op["res"].as_str() == Some("ok") && o["data"] != op["data"] {
                return false;
            }
            true
        }
    }
}

fn tcp_replay_one(beh: &[Value], cfg: &TcpCfg) -> (Option<Value>, Option<Value>, Vec<Value>, bool) {
    let mut run = TcpRun::new(cfg.nh, cfg.cap, cfg.v6, 1, cfg.nports);
    let mut conn_host: BTreeMap<u64, usize> = BTreeMap::new();
    let mut rdiv = None;
    let mut tdiv = None;
    if cfg.pre {
        // the handshake of connection 1 (host 1 -> server, port 1), not part of the behaviour
        for op in [
            json!({"a":"bind","p":1,"kind":"any"}),
            json!({"a":"connect","c":1,"h":1,"p":1,"dk":"srv"}),
            json!({"a":"deliver","c":1,"to":2,"kind":"syn","seq":0}),
            json!({"a":"accept","p":1}),
            json!({"a":"poll","c":1}),
        ] {
            tcp_do(&mut run, &op, &mut conn_host, 0);
        }
    }
    let (mut has_fault, mut has_obs) = (false, false);
    for (i, e) in beh.iter().enumerate() {
        let op = &e["op"];
        let a = op["a"].as_str().unwrap();
        if matches!(a, "deliver" | "partition" | "cancel" | "drop_listener" | "drop_half" | "drop_stream") {
            has_fault = true;
        }
        if matches!(a, "read" | "peek" | "poll" | "accept") && op["res"].as_str() != Some("pending") {
            has_obs = true;
        }
        let obs = tcp_do(&mut run, op, &mut conn_host, i as u64);
        if rdiv.is_none() && !tcp_agrees(op, &obs) {
            rdiv = Some(json!({"at":i,"what":"result","want":op,"got":obs}));
        }
        let parse = |m: &Value| WireMsg {
            c: m["c"].as_u64().unwrap(),
            to: m["to"].as_u64().unwrap(),
            kind: m["kind"].as_str().unwrap().into(),
            seq: m["seq"].as_u64().unwrap(),
        };
        // the model's wire is one global queue; Sim::links goes link by link (= per connector host)
        let mut want_model: Vec<WireMsg> = Vec::new();
        for h in 1..cfg.nh {
            for m in e["wire"].as_array().unwrap() {
                if conn_host.get(&m["c"].as_u64().unwrap()) == Some(&h) {
                    want_model.push(parse(m));
                }
            }
        }
        let want: Vec<RawMsg> = want_model.iter().map(|m| run.raw_of(m)).collect();
        let got = run.raw_links();
        if tdiv.is_none() && got != want {
            tdiv = Some(json!({"at":i,"what":"links","want":format!("{want:?}"),"got":format!("{got:?}")}));
        }
        // the stream count is an observation of the PropSpec (clause Reclaimed): judged, not drift
        let cnt: Vec<Value> = run.counts().into_iter().map(|n| json!(n)).collect();
        if rdiv.is_none() && json!(cnt) != e["cnt"] {
            rdiv = Some(json!({"at":i,"what":"counts","want":e["cnt"],"got":cnt}));
        }
        run.model_wire = e["wire"].as_array().unwrap().iter().map(parse).collect();
        // Messages the ImplSpec does not predict (the code sent something extra) cannot be
        // scheduled by the behaviour: they are delivered at once, oldest first, so that
        // their effect becomes observable and the PropSpec can judge it.
        loop {
            let mut rest = want.clone();
            let mut extra = None;
            for (idx, m) in run.raw_links().into_iter().enumerate() {
                if let Some(k) = rest.iter().position(|x| *x == m) {
                    rest.remove(k);
                } else {
                    extra = Some((idx, m));
                    break;
                }
            }
            let Some((idx, m)) = extra else { break };
            let c = run.syn_src.iter().filter(|(_, a)| **a == m.addr).map(|(c, _)| *c).max().unwrap_or(0);
            run.deliver_index(idx);
            run.step();
            run.trace.push(json!({"ev":"deliver","c":c,"to":m.to,"kind":m.kind,"seq":m.seq,"unexpected":true}));
            if m.kind == "syn" {
                run.trace.push(json!({"ev":"syn_arrive","c":c}));
            }
        }
    }
    if rdiv.is_some() {
        // connects the code left pending although the behaviour is over (the model had them finished):
        // poll them a few more steps so that the PropSpec sees whether they hang, succeed or fail
        let mut pending: BTreeMap<u64, bool> = BTreeMap::new();
        for e in &run.trace {
            let c = e["c"].as_u64().unwrap_or(0);
            match (e["ev"].as_str(), e["res"].as_str()) {
                (Some("connect"), Some("pending")) => {
                    pending.insert(c, true);
                }
                (Some("poll"), Some(r)) if r != "pending" => {
                    pending.remove(&c);
                }
                (Some("cancel"), _) => {
                    pending.remove(&c);
                }
                _ => {}
            }
        }
        for _ in 0..3 {
            for c in pending.keys() {
                run.cmd(*conn_host.get(c).unwrap_or(&1), TCmd::Poll { c: *c });
            }
            run.step();
        }
    }
    (rdiv, tdiv, std::mem::take(&mut run.trace), has_fault && has_obs)
}

fn main_tcp_replay(args: &[String]) {
    let inp = util::arg(args, "in").expect("in=");
    let out = util::arg(args, "out").expect("out=");
    let traces = util::arg(args, "traces");
    let keep = util::arg_u64(args, "keep", 0) == 1;
    let cfg = TcpCfg {
        nh: util::arg_u64(args, "nh", 2) as usize,
        cap: util::arg_u64(args, "cap", 2) as usize,
        v6: util::arg_u64(args, "v6", 0) == 1,
        pre: util::arg_u64(args, "pre", 0) == 1,
        nports: util::arg_u64(args, "nports", 0) as u16,
    };
    let text = std::fs::read_to_string(&inp).expect("read behaviours");
    let (mut total, mut nontrivial, mut ndiv, mut nres) = (0u64, 0u64, 0u64, 0u64);
    let mut divs: Vec<Value> = Vec::new();
    let mut tdivs: Vec<Value> = Vec::new();
    let mut samples: Vec<Value> = Vec::new();
    // every result-divergent behaviour's trace, concatenated (each starts with a reset event that
    // carries the behaviour's line number): the PropSpec judges all of them in one TLC run
    let mut divs_all: Vec<Value> = Vec::new();
    let mut divs_all_lines: Vec<Value> = Vec::new();
    rec::with_recorder(|| {
        for (k, line) in text.lines().enumerate() {
            if line.trim().is_empty() {
                continue;
            }
            let beh: Vec<Value> = serde_json::from_str(line).expect("behaviour json");
            let (rd, td, tr, nt) = match { CURRENT_CASE.store(k as i64, std::sync::atomic::Ordering::Relaxed); catch1(|| tcp_replay_one(&beh, &cfg)) } {
                Ok(x) => x,
                Err(p) => {
                    rec::take();
                    (Some(json!({"what":"panic","msg":p})), None, vec![], false)
                }
            };
            total += 1;
            if nt {
                nontrivial += 1;
            }
            if samples.len() < 2 && nt && beh.len() >= 4 {
                samples.push(json!({"behaviour": beh.iter().map(|e| e["op"].clone()).collect::<Vec<_>>(),
                    "trace_excerpt": tr.iter().filter(|e| e["ev"] != "count" && e["ev"] != "step").take(14).collect::<Vec<_>>()}));
            }
            if rd.is_some() || td.is_some() {
                ndiv += 1;
            }
            if let (true, Some(dir)) = (keep, &traces) {
                util::write_ndjson(&format!("{dir}/all-{k}.ndjson"), &tr);
            }
            if rd.is_some() && divs_all.len() + tr.len() <= 150_000 {
                let mut first = true;
                for e in &tr {
                    let mut e = e.clone();
                    if first {
                        e["line"] = json!(k);
                        first = false;
                    }
                    divs_all.push(e);
                }
                divs_all_lines.push(json!(k));
            }
            if let Some(mut d) = rd {
                nres += 1;
                if divs.len() < 25 || (d["what"] == "panic" && divs.iter().filter(|x| x["what"] == "panic").count() < 3) {
                    d["line"] = json!(k);
                    d["behaviour"] = json!(beh);
                    if let Some(dir) = &traces {
                        let p = format!("{dir}/div-{}.ndjson", divs.len());
                        util::write_ndjson(&p, &tr);
                        d["trace"] = json!(p);
                    }
                    divs.push(d);
                }
            } else if let Some(mut d) = td {
                if tdivs.len() < 3 {
                    d["line"] = json!(k);
                    d["behaviour"] = json!(beh);
                    tdivs.push(d);
                }
            }
        }
    });
    if let Some(dir) = &traces {
        util::write_ndjson(&format!("{dir}/divs-all.ndjson"), &divs_all);
    }
    let summary = json!({"behaviours": total, "nontrivial": nontrivial, "divergent": ndiv, "result_divergent": nres,
        "divergences": divs, "table_divergences": tdivs, "samples": samples, "judged_lines": divs_all_lines});
    std::fs::write(&out, serde_json::to_string(&summary).unwrap()).unwrap();
    println!("replayed={total} nontrivial={nontrivial} divergent={ndiv} result_divergent={nres}");
}

// ---------------------------------------------------------------------------
// random scenarios (code -> spec) for MsgTcp

fn model_byte(c: u64, s: u64, k: u64) -> u8 {
    (64 * ((c - 1) % 4) + 32 * (s - 1) + ((k - 1) % 31) + 1) as u8
}

#[derive(Clone, Default)]
struct REnd {
    split: bool, // into_split was called (try_write is gone)
    r: bool,
    w: bool,
    acc: u64, // bytes this end's writes had accepted
}

#[derive(Clone, Default)]
struct RConn {
    h: usize,
    p: u64,
    st: String, // pending | ok | refused | cancelled
    /// step at which the connector gave up; its request may still sit in the listener queue
    cancel_at: Option<u64>,
    /// the request can no longer be in the listener queue (accepted, refused, or popped as dead)
    out_of_queue: bool,
    e1: Option<REnd>,
    e2: Option<REnd>,
}

fn main_tcp_random(args: &[String]) {
    let seed = util::arg_u64(args, "seed", 1);
    let runs = util::arg_u64(args, "runs", 10);
    let nh = util::arg_u64(args, "nh", 3) as usize;
    let cap = util::arg_u64(args, "cap", 2) as usize;
    let tick = util::arg_u64(args, "tick", 2);
    let lmin = util::arg_u64(args, "lmin", 1);
    let lmax = util::arg_u64(args, "lmax", 6);
    let nconn = util::arg_u64(args, "conns", 3);
    let steps = util::arg_u64(args, "steps", 45);
    let mode = util::arg(args, "mode").unwrap_or("data".into());
    let pressure = util::arg_u64(args, "pressure", 0);
    let poolruns = util::arg_u64(args, "poolruns", 0);
    let cutruns = util::arg_u64(args, "cutruns", 0);
    let out = util::arg(args, "out").expect("out=");
    let mut rng = SmallRng::seed_from_u64(seed ^ 0x6d746370);
    let mut all: Vec<Value> = Vec::new();
    let (mut nops, mut nfault, mut nreorder, mut npanic) = (0u64, 0u64, 0u64, 0u64);
    rec::with_recorder(|| {
        for r in 0..runs {
            let v6 = rng.random_bool(0.5);
            let run_seed: u64 = rng.random();
            CURRENT_CASE.store(r as i64, std::sync::atomic::Ordering::Relaxed);
            let res = catch_all(|| {
            let mut rng = SmallRng::seed_from_u64(run_seed);
            let (mut nops, mut nfault, mut nreorder) = (0u64, 0u64, 0u64);
            let mut run = TcpRun::with(nh, cap, v6, seed.wrapping_mul(1000).wrapping_add(r), tick, lmin, lmax, true, 0);
            let mut conns: BTreeMap<u64, RConn> = BTreeMap::new();
            let mut conn_host: BTreeMap<u64, usize> = BTreeMap::new();
            let mut bound: BTreeMap<u64, String> = BTreeMap::new();
            let mut part: BTreeMap<usize, String> = BTreeMap::new();
            let mut held: BTreeMap<usize, bool> = BTreeMap::new();
            let mut last_send = 0u64;
            let conn_mode = mode == "conn";
            // burst: the connectors start back to back and the listener accepts only after their
            // requests have queued up (several requests pending at one listener at the same time)
            let burst_until: u64 = if conn_mode && rng.random_bool(0.6) { 2 * lmax / tick + nconn + 3 } else { 0 };
            // listener(s); in half of the conn-mode runs port 1 is served by two tasks sharing the listener
            let pool = conn_mode && rng.random_bool(0.5);
            if pool {
                run.cmd(nh, TCmd::BindPool { p: 1, kind: "any".into(), workers: 2 });
            } else {
                run.cmd(nh, TCmd::Bind { p: 1, kind: "any".into() });
            }
            bound.insert(1, "any".into());
            if rng.random_bool(0.5) {
                let kind = if rng.random_bool(0.5) { "lo" } else { "any" };
                run.cmd(nh, TCmd::Bind { p: 2, kind: kind.into() });
                bound.insert(2, kind.into());
            }
            run.step();
            let mut fault_here = false;
            for st in 1..=steps {
                // ---- controller
                if nh > 1 && rng.random_bool(if conn_mode { 0.10 } else { 0.05 }) {
                    let h = rng.random_range(1..nh);
                    let (cn, sn) = (hostname(h, nh), "srv".to_string());
                    if *held.get(&h).unwrap_or(&false) {
                        // sometimes: hold, (writes), repair, release - repair makes the link healthy
                        // without releasing what is held, the release must still reschedule it
                        if rng.random_bool(0.4) && part.get(&h).map(|p| p == "none").unwrap_or(true) {
                            tcp_do(&mut run, &json!({"a":"repair","h":h,"norehold":true}), &mut conn_host, 0);
                        }
                        run.sim.release(cn, sn);
                        held.insert(h, false);
                    } else if part.get(&h).map(|p| p == "none").unwrap_or(true) {
                        run.sim.hold(cn, sn);
                        held.insert(h, true);
                    }
                    fault_here = true;
                }
                if nh > 1 && rng.random_bool(if conn_mode { 0.08 } else { 0.025 }) {
                    let h = rng.random_range(1..nh);
                    let cur = part.get(&h).cloned().unwrap_or("none".into());
                    if cur != "none" && rng.random_bool(0.6) {
                        tcp_do(&mut run, &json!({"a":"repair","h":h,"norehold":true}), &mut conn_host, 0);
                        part.insert(h, "none".into());
                        held.insert(h, false);
                    } else if cur != "both" {
                        // Link::release makes both directions Healthy again, explicit partitions
                        // included: never leave a hold pending on a link that gets partitioned
                        if *held.get(&h).unwrap_or(&false) {
                            run.sim.release(hostname(h, nh), "srv".to_string());
                            held.insert(h, false);
                        }
                        let hows: Vec<&str> = ["both", "c2s", "s2c"].into_iter().filter(|x| *x != cur).collect();
                        let how = hows[rng.random_range(0..hows.len())];
                        tcp_do(&mut run, &json!({"a":"partition","h":h,"how":how,"nostep":true}), &mut conn_host, 0);
                        let new = if how == "both" || cur != "none" { "both" } else { how };
                        part.insert(h, new.into());
                    }
                    fault_here = true;
                    last_send = st;
                }
                // ---- listeners (conn mode): drop / re-bind
                if conn_mode && rng.random_bool(0.05) {
                    let p = if pool { 2 } else { rng.random_range(1..=2u64) };
                    if bound.contains_key(&p) {
                        run.cmd(nh, TCmd::DropListener { p });
                        bound.remove(&p);
                        fault_here = true;
                    } else {
                        let kind = if rng.random_bool(0.3) { "lo" } else { "any" };
                        run.cmd(nh, TCmd::Bind { p, kind: kind.into() });
                        bound.insert(p, kind.into());
                    }
                }
                // ---- connectors
                let next = conns.len() as u64 + 1;
                // requests that may sit in a listener queue stay below tcp_capacity (beyond: documented panic)
                let room = |p: u64| conns.values().filter(|k| k.p == p && !k.out_of_queue).count() < cap;
                let want_p: u64 = if rng.random_bool(0.8) { 1 } else { 2 };
                let want_p: u64 = if st <= burst_until { 1 } else { want_p };
                if next <= nconn && rng.random_bool(if st <= burst_until { 0.9 } else { 0.35 }) && room(want_p) {
                    let kind = rng.random_range(0..10);
                    // remote client / the server's own host by name / by 127.0.0.1 / nobody's address
                    let (h, dst, dh, lo) = if kind < 6 && nh > 1 {
                        (rng.random_range(1..nh), "srv".to_string(), nh as u64, false)
                    } else if kind < 8 {
                        (nh, "srv".to_string(), nh as u64, false)
                    } else if kind < 9 || !conn_mode {
                        (nh, if v6 { "::1".to_string() } else { "127.0.0.1".to_string() }, nh as u64, true)
                    } else if rng.random_bool(0.5) {
                        (if nh > 1 { 1 } else { nh }, if v6 { "fd00::99".to_string() } else { "10.99.99.99".to_string() }, 0, false)
                    } else {
                        // the unspecified address is nobody's address, also on the listener's own host
                        (if rng.random_bool(0.7) { nh } else { 1.min(nh) }, if v6 { "::".to_string() } else { "0.0.0.0".to_string() }, 0, false)
                    };
                    let p = want_p;
                    run.cmd(h, TCmd::Connect { c: next, dst, dh, p, lo });
                    conn_host.insert(next, h);
                    conns.insert(next, RConn { h, p, st: "pending".into(), ..Default::default() });
                    last_send = st;
                }
                for (c, k) in conns.iter() {
                    if k.st == "pending" {
                        if rng.random_bool(if conn_mode { 0.08 } else { 0.02 }) {
                            run.cmd(k.h, TCmd::Cancel { c: *c });
                            fault_here = true;
                            last_send = st; // an abandoned connect sends an RST
                        } else if rng.random_bool(0.7) {
                            run.cmd(k.h, TCmd::Poll { c: *c });
                        }
                    }
                }
                for p in bound.keys() {
                    if pool && *p == 1 {
                        continue; // the worker tasks accept
                    }
                    if st > burst_until && rng.random_bool(0.6) {
                        run.cmd(nh, TCmd::Accept { p: *p });
                    }
                }
                // ---- stream ends
                let late = st * 3 > steps * 2;
                for (c, k) in conns.iter_mut() {
                    for s in [1u64, 2u64] {
                        let hh = if s == 1 { k.h } else { nh };
                        let key = run.key(*c, s);
                        let Some(e) = (if s == 1 { k.e1.as_mut() } else { k.e2.as_mut() }) else { continue };
                        if key.is_empty() {
                            continue;
                        }
                        let pick = rng.random_range(0..100);
                        if pick < 30 && e.w {
                            let len = if rng.random_bool(0.12) { 0 } else { rng.random_range(1..=4u64) };
                            let data: Vec<u8> = (1..=len).map(|j| model_byte(*c, s, e.acc + j)).collect();
                            // try_write exists on the whole stream only (no half dropped yet)
                            let via = if e.r && e.w && !e.split { rng.random_range(0..2) } else { 0 };
                            run.cmd(hh, TCmd::Write { key, c: *c, s, data, via });
                            last_send = st;
                        } else if pick < 62 && e.r {
                            run.cmd(hh, TCmd::Read { key, c: *c, s, n: rng.random_range(0..=5), peek: false });
                        } else if pick < 70 && e.r {
                            run.cmd(hh, TCmd::Read { key, c: *c, s, n: rng.random_range(0..=3), peek: true });
                        } else if pick < 74 && e.w && (late || rng.random_bool(0.3)) {
                            // half of the shutdowns go through the owned write half of a split stream
                            if !e.split && rng.random_bool(0.5) {
                                run.cmd(hh, TCmd::Split { key: key.clone() });
                                e.split = true;
                            }
                            run.cmd(hh, TCmd::Shutdown { key, c: *c, s });
                            last_send = st;
                        } else if pick < 77 && late {
                            let h = if e.r && (!e.w || rng.random_bool(0.5)) { "r" } else { "w" };
                            run.cmd(hh, TCmd::DropHalf { key, c: *c, s, h: h.into() });
                            last_send = st;
                        } else if pick < 79 && late && e.r && e.w {
                            run.cmd(hh, TCmd::DropStream { key, c: *c, s });
                            last_send = st;
                        }
                    }
                }
                run.step();
                if !run.links().is_empty() && lmax > lmin {
                    nreorder += 1;
                }
                random_update(&run.last_results, &mut conns, st, 2 * lmax / tick + 3);
                nops += run.last_results.len() as u64;
                // quiet: nothing on any link, and (loopback deliveries take one tick) two steps since the last send
                if run.links().is_empty() && st >= last_send + 3 {
                    run.trace.push(json!({"ev":"quiet"}));
                }
            }
            // ---- wind down: release holds, let everything arrive, then every reader reads on
            for h in 1..nh {
                if *held.get(&h).unwrap_or(&false) {
                    run.sim.release(hostname(h, nh), "srv".to_string());
                }
            }
            for _ in 0..(2 * lmax / tick + 6) {
                run.step();
            }
            let stuck: Vec<u64> = run.links().iter().map(|m| m.c).collect();
            if !stuck.is_empty() {
                let mut cs = stuck.clone();
                cs.sort();
                cs.dedup();
                run.trace.push(json!({"ev":"overdue","cs":cs}));
            }
            for round in 0..8 {
                if run.links().is_empty() {
                    run.trace.push(json!({"ev":"quiet"}));
                }
                for (c, k) in conns.iter() {
                    if k.st == "pending" {
                        run.cmd(k.h, TCmd::Poll { c: *c });
                    }
                    for s in [1u64, 2u64] {
                        let hh = if s == 1 { k.h } else { nh };
                        let key = run.key(*c, s);
                        let e = if s == 1 { k.e1.as_ref() } else { k.e2.as_ref() };
                        if let (Some(e), false) = (e, key.is_empty()) {
                            if e.r {
                                run.cmd(hh, TCmd::Read { key, c: *c, s, n: 4 + round % 2, peek: false });
                            }
                        }
                    }
                }
                run.step();
                random_update(&run.last_results, &mut conns, steps + 100, 0);
            }
            if fault_here {
                nfault += 1;
            }
            run.finalize();
            (std::mem::take(&mut run.trace), nops, nfault, nreorder)
            });
            match res {
                Ok((tr, a, b, c)) => {
                    all.extend(tr);
                    nops += a;
                    nfault += b;
                    nreorder += c;
                }
                Err(msgs) => {
                    rec::take();
                    let cause = msgs.first().cloned().unwrap_or_default();
                    if documented_panic(&cause) {
                        // documented panics (listener queue full, 4-tuple reuse, ports exhausted) are
                        // outcomes outside the statements: the run is discarded
                        npanic += 1;
                        eprintln!("run {r} discarded: {cause}");
                    } else {
                        // any other panic of the code under test is an observation for the PropSpec
                        all.push(json!({"ev":"reset"}));
                        all.push(json!({"ev":"panic","msg":cause,"run":r}));
                    }
                }
            }
        }
        // scripted shared-listener scenarios (conn mode): see pool_run
        for r in 0..poolruns {
            let v6 = r % 2 == 1;
            let run_seed: u64 = rng.random();
            CURRENT_CASE.store(1000 + r as i64, std::sync::atomic::Ordering::Relaxed);
            match catch_all(|| pool_run(nh, cap, nconn, v6, run_seed, tick, lmin, lmax)) {
                Ok(tr) => all.extend(tr),
                Err(msgs) => {
                    rec::take();
                    let cause = msgs.first().cloned().unwrap_or_default();
                    if documented_panic(&cause) {
                        npanic += 1;
                    } else {
                        all.push(json!({"ev":"reset"}));
                        all.push(json!({"ev":"panic","msg":cause,"run":format!("pool {r}")}));
                    }
                }
            }
        }
        // scripted reverse-direction cuts around the handshake (conn mode): see cut_run
        for r in 0..cutruns {
            let v6 = r % 2 == 1;
            let run_seed: u64 = rng.random();
            CURRENT_CASE.store(2000 + r as i64, std::sync::atomic::Ordering::Relaxed);
            match catch_all(|| cut_run(nh, cap, v6, run_seed, tick, lmin, lmax, r)) {
                Ok(tr) => all.extend(tr),
                Err(msgs) => {
                    rec::take();
                    let cause = msgs.first().cloned().unwrap_or_default();
                    if documented_panic(&cause) {
                        npanic += 1;
                    } else {
                        all.push(json!({"ev":"reset"}));
                        all.push(json!({"ev":"panic","msg":cause,"run":format!("cut {r}")}));
                    }
                }
            }
        }
        // scripted back-pressure scenarios (data mode): see pressure_run
        for r in 0..pressure {
            let v6 = r % 2 == 1;
            let run_seed: u64 = rng.random();
            match catch_all(|| pressure_run(nh, cap, v6, run_seed, tick, lmin, lmax)) {
                Ok(tr) => all.extend(tr),
                Err(msgs) => {
                    rec::take();
                    let cause = msgs.first().cloned().unwrap_or_default();
                    if documented_panic(&cause) {
                        npanic += 1;
                    } else {
                        all.push(json!({"ev":"reset"}));
                        all.push(json!({"ev":"panic","msg":cause,"run":format!("pressure {r}")}));
                    }
                }
            }
        }
    });
    util::write_ndjson(&out, &all);
    println!("runs={runs} pressure={pressure} events={} ops={nops} runs_with_faults={nfault} steps_with_inflight={nreorder} discarded={npanic}", all.len());
}

/// Two tasks share one listener and are both parked in accept(); the links are held while 2-3
/// connectors start, then released together, so that their requests reach the listener's host in
/// the same turn.  Every request must be handed to a worker; none may wait behind a parked accept.
#[allow(clippy::too_many_arguments)]
fn pool_run(nh: usize, cap: usize, nconn: u64, v6: bool, seed: u64, tick: u64, lmin: u64, lmax: u64) -> Vec<Value> {
    let mut rng = SmallRng::seed_from_u64(seed);
    let mut run = TcpRun::with(nh, cap, v6, seed, tick, lmin, lmax, true, 0);
    run.cmd(nh, TCmd::BindPool { p: 1, kind: "any".into(), workers: 2 });
    run.step();
    run.step();
    for h in 1..nh {
        run.sim.hold(hostname(h, nh), "srv".to_string());
    }
    let n = rng.random_range(2..=3u64).min(nconn).min(cap as u64);
    let mut hosts: BTreeMap<u64, usize> = BTreeMap::new();
    for c in 1..=n {
        // connectors on two hosts, or several on one host
        let h = if nh > 2 && rng.random_bool(0.5) { 1 + ((c as usize) % (nh - 1)) } else { 1.min(nh - 1).max(1) };
        hosts.insert(c, h);
        run.cmd(h, TCmd::Connect { c, dst: "srv".into(), dh: nh as u64, p: 1, lo: false });
        run.step();
    }
    for h in 1..nh {
        run.sim.release(hostname(h, nh), "srv".to_string());
    }
    let mut done: std::collections::BTreeSet<u64> = Default::default();
    for _ in 0..(2 * lmax / tick + 14) {
        for (c, h) in &hosts {
            if !done.contains(c) {
                run.cmd(*h, TCmd::Poll { c: *c });
            }
        }
        run.step();
        for e in &run.last_results {
            if e["ev"] == "poll" && e["res"] != "pending" {
                done.insert(e["c"].as_u64().unwrap_or(0));
            }
        }
        if run.links().is_empty() {
            run.trace.push(json!({"ev":"quiet"}));
        }
    }
    run.finalize();
    std::mem::take(&mut run.trace)
}

/// The direction listener -> connector is cut one-way from host code of a host that runs before
/// the listener's host, in the very step in which the connector's request becomes due (the link is
/// held while the connector starts and released right before that step).  Only the reverse
/// direction is cut: the request must still reach the listener and the connect must succeed.
#[allow(clippy::too_many_arguments)]
fn cut_run(nh: usize, cap: usize, v6: bool, seed: u64, tick: u64, lmin: u64, lmax: u64, variant: u64) -> Vec<Value> {
    let mut run = TcpRun::with(nh, cap, v6, seed, tick, lmin, lmax, true, 0);
    run.cmd(nh, TCmd::Bind { p: 1, kind: "any".into() });
    run.step();
    let ch = 1usize;
    run.sim.hold(hostname(ch, nh), "srv".to_string());
    run.cmd(ch, TCmd::Connect { c: 1, dst: "srv".into(), dh: nh as u64, p: 1, lo: false });
    run.step();
    run.sim.release(hostname(ch, nh), "srv".to_string());
    // variant 0/1: the cut is made in the step the request becomes due, by the connector's own host or
    // by another host that runs before the listener; variant 2: one step later (control)
    if variant % 3 == 2 {
        run.cmd(nh, TCmd::Accept { p: 1 });
        run.step();
    }
    let cutter = if variant % 3 == 1 && nh > 2 { 2 } else { ch };
    run.cmd(cutter, TCmd::CutOneway { from: "srv".into(), to: hostname(ch, nh), a: nh, b: ch });
    let (mut acc, mut done) = (false, false);
    for _ in 0..(2 * lmax / tick + 8) {
        if !acc {
            run.cmd(nh, TCmd::Accept { p: 1 });
        }
        if !done {
            run.cmd(ch, TCmd::Poll { c: 1 });
        }
        run.step();
        for e in &run.last_results {
            if e["ev"] == "accept" && e["res"] == "ok" {
                acc = true;
            }
            if e["ev"] == "poll" && e["res"] != "pending" {
                done = true;
            }
        }
    }
    run.finalize();
    std::mem::take(&mut run.trace)
}

/// A slow reader behind a fast writer.  Phase 1: the writer writes every step while the reader
/// takes every segment with a peek followed by reads (whole or in pieces).  Phase 2: the reader stops,
/// the writer keeps writing until it is told WouldBlock for good.  Phase 3: nobody writes any more
/// (no shutdown: nothing re-triggers the receiver), everything drains, the reader reads until it
/// stays pending with nothing in flight.  Flow control must have kept every accepted byte readable.
fn pressure_run(nh: usize, cap: usize, v6: bool, seed: u64, tick: u64, lmin: u64, lmax: u64) -> Vec<Value> {
    let mut rng = SmallRng::seed_from_u64(seed);
    let mut run = TcpRun::with(nh, cap, v6, seed, tick, lmin, lmax, true, 0);
    let mut conn_host: BTreeMap<u64, usize> = BTreeMap::new();
    let ch = if nh > 1 { 1 } else { nh };
    let c = 1u64;
    conn_host.insert(c, ch);
    run.cmd(nh, TCmd::Bind { p: 1, kind: "any".into() });
    run.step();
    run.cmd(ch, TCmd::Connect { c, dst: "srv".into(), dh: nh as u64, p: 1, lo: false });
    run.step();
    let (mut ok, mut acc) = (false, false);
    for _ in 0..(2 * lmax / tick + 8) {
        if !acc {
            run.cmd(nh, TCmd::Accept { p: 1 });
        }
        if !ok {
            run.cmd(ch, TCmd::Poll { c });
        }
        run.step();
        for e in &run.last_results {
            if e["ev"] == "accept" && e["res"] == "ok" {
                acc = true;
            }
            if e["ev"] == "poll" && e["res"] == "ok" {
                ok = true;
            }
        }
        if ok && acc {
            break;
        }
    }
    if !(ok && acc) {
        return std::mem::take(&mut run.trace);
    }
    // the writer is the connector in even-seeded runs, the acceptor otherwise
    let ws: u64 = if seed % 2 == 0 { 1 } else { 2 };
    let rs = 3 - ws;
    let host = |s: u64| if s == 1 { ch } else { nh };
    let mut accepted = 0u64;
    let write = |run: &mut TcpRun<'_>, rng: &mut SmallRng, accepted: u64| {
        let len = rng.random_range(1..=3u64);
        let data: Vec<u8> = (1..=len).map(|j| model_byte(c, ws, accepted + j)).collect();
        let key = run.key(c, ws);
        run.cmd(host(ws), TCmd::Write { key, c, s: ws, data, via: 0 });
    };
    let took = |run: &TcpRun<'_>| -> u64 {
        run.last_results
            .iter()
            .filter(|e| e["ev"] == "write" && e["res"] == "ok")
            .map(|e| e["data"].as_array().map(|a| a.len()).unwrap_or(0) as u64)
            .sum()
    };
    let cycles = rng.random_range(3..=7u64);
    for _ in 0..(cycles + 2 * lmax / tick) {
        write(&mut run, &mut rng, accepted);
        let key = run.key(c, rs);
        run.cmd(host(rs), TCmd::Read { key: key.clone(), c, s: rs, n: rng.random_range(1..=4), peek: true });
        let pieces = rng.random_range(1..=2);
        for _ in 0..pieces {
            run.cmd(host(rs), TCmd::Read { key: key.clone(), c, s: rs, n: if pieces == 1 { 4 } else { rng.random_range(1..=2) }, peek: false });
        }
        run.step();
        accepted += took(&run);
    }
    for _ in 0..(2 * cap as u64 + 2 * lmax / tick + 6) {
        write(&mut run, &mut rng, accepted);
        run.step();
        accepted += took(&run);
    }
    for _ in 0..(2 * lmax / tick + 6) {
        run.step();
    }
    for round in 0..(accepted + 6) {
        if run.links().is_empty() {
            run.trace.push(json!({"ev":"quiet"}));
        }
        let key = run.key(c, rs);
        run.cmd(host(rs), TCmd::Read { key, c, s: rs, n: 3 + (round % 2) as usize, peek: false });
        run.step();
    }
    run.finalize();
    std::mem::take(&mut run.trace)
}

/// Harness bookkeeping: which connections / ends / halves exist (from the results the calls returned).
fn random_update(results: &[Value], conns: &mut BTreeMap<u64, RConn>, st: u64, margin: u64) {
    for e in results {
        // an accept that stays pending has emptied the queue: dead requests that had arrived are gone
        if e["ev"].as_str() == Some("accept") && e["res"].as_str() == Some("pending") {
            let p = e["p"].as_u64().unwrap_or(0);
            for k in conns.values_mut() {
                if k.p == p && k.cancel_at.map(|t| t + margin <= st).unwrap_or(false) {
                    k.out_of_queue = true;
                }
            }
        }
        let c = e["c"].as_u64().unwrap_or(0);
        let Some(k) = conns.get_mut(&c) else { continue };
        let s = e["s"].as_u64().unwrap_or(0);
        match e["ev"].as_str().unwrap_or("") {
            "connect" | "poll" => match e["res"].as_str().unwrap_or("") {
                "pending" => {}
                "ok" => {
                    k.st = "ok".into();
                    k.e1 = Some(REnd { split: false, r: true, w: true, acc: 0 });
                }
                _ => {
                    k.st = "refused".into();
                    k.out_of_queue = true;
                }
            },
            "cancel" => {
                k.st = "cancelled".into();
                k.cancel_at = Some(st);
            }
            "accept" => {
                if e["res"].as_str() == Some("ok") {
                    k.e2 = Some(REnd { split: false, r: true, w: true, acc: 0 });
                    k.out_of_queue = true;
                }
            }
            "write" => {
                if e["res"].as_str() == Some("ok") {
                    let n = e["data"].as_array().map(|a| a.len()).unwrap_or(0) as u64;
                    if let Some(x) = if s == 1 { k.e1.as_mut() } else { k.e2.as_mut() } {
                        x.acc += n;
                    }
                }
            }
            "drop_half" => {
                if let Some(x) = if s == 1 { k.e1.as_mut() } else { k.e2.as_mut() } {
                    if e["h"].as_str() == Some("r") {
                        x.r = false;
                    } else {
                        x.w = false;
                    }
                }
            }
            "drop_stream" => {
                if let Some(x) = if s == 1 { k.e1.as_mut() } else { k.e2.as_mut() } {
                    x.r = false;
                    x.w = false;
                }
            }
            _ => {}
        }
    }
}

fn main() {
    let args: Vec<String> = std::env::args().skip(1).collect();
    if let Some(p) = util::arg(&args, "panics") {
        let _ = std::fs::remove_file(&p);
        let _ = PANIC_LOG.set(p);
    }
    match args.first().map(|s| s.as_str()) {
        Some("ports-replay") => main_ports_replay(&args[1..]),
        Some("ports-random") => main_ports_random(&args[1..]),
        Some("tcp-replay") => main_tcp_replay(&args[1..]),
        Some("tcp-random") => main_tcp_random(&args[1..]),
        _ => {
            eprintln!("usage: msgtcp ports-replay|ports-random|tcp-replay|tcp-random key=value...");
            std::process::exit(2);
        }
    }
}
