//! Driver for turmoil::net message-level TCP and the port / DNS allocators
//! (specs/msgtcp): C02, C12, C15.
//!
//! Modes
//!   ports-replay in=<behaviours.ndjson> out=<summary.json> traces=<dir> lo= hi= v6=0|1
//!       every line is one TLC-generated history of PortsGen (bind / connect /
//!       accept / drop / crash on the host under test, or DNS calls); it is
//!       executed against a real Sim and the result of every call plus the
//!       hook snapshot of the host tables is compared with TLC's prediction.
//!   ports-random seed= runs= ops= lo= hi= maxsock= out=<trace.ndjson>
//!       seeded random histories (longer, larger ranges, IPv4 and IPv6,
//!       DNS with many names); one concatenated event trace.
//!   tcp-replay / tcp-random: see the second half of this file.
use rand::rngs::SmallRng;
use rand::{Rng, SeedableRng};
use serde_json::{json, Value};
use std::cell::RefCell;
use std::collections::{BTreeMap, VecDeque};
use std::future::Future;
use std::net::{IpAddr, Ipv4Addr, Ipv6Addr, SocketAddr};
use std::pin::Pin;
use std::rc::Rc;
use std::task::Poll;
use std::time::Duration;
use tokio::sync::Notify;
use turmoil::net::tcp::{OwnedReadHalf, OwnedWriteHalf};
use turmoil::net::{TcpListener, TcpStream, UdpSocket};
use vh::{rec, util};

const ADDR_IN_USE: i64 = -1;
const EXHAUSTED: i64 = -2;
const FAILED: i64 = -3;

/// Poll a future exactly once.
async fn poll_once<F: Future + Unpin>(f: &mut F) -> Poll<F::Output> {
    std::future::poll_fn(|cx| Poll::Ready(Pin::new(&mut *f).poll(cx))).await
}

type BoxFut<T> = Pin<Box<dyn Future<Output = T>>>;

fn wildcard(v6: bool) -> IpAddr {
    if v6 {
        IpAddr::V6(Ipv6Addr::UNSPECIFIED)
    } else {
        IpAddr::V4(Ipv4Addr::UNSPECIFIED)
    }
}

// ===========================================================================
// Ports (C15)

enum XSock {
    Udp(#[allow(dead_code)] UdpSocket),
    Lst(TcpListener),
    Whole(#[allow(dead_code)] TcpStream),
    Split(Option<OwnedReadHalf>, Option<OwnedWriteHalf>),
}

#[derive(Clone, Debug)]
enum XCmd {
    BindUdp { s: usize, p: u16 },
    BindTcp { s: usize, p: u16 },
    Connect { s: usize, how: String },
    CancelPending,
    Accept { s: usize, l: usize },
    Drop { s: usize },
    DropHalf { s: usize, h: String },
}

#[derive(Clone, Debug)]
enum PCmd {
    ConnectTo { port: u16 },
    CloseAcc { xport: u16 },
    CloseOut { pport: u16 },
    CloseAll,
}

#[derive(Default)]
struct PortsShared {
    xcmds: VecDeque<XCmd>,
    pcmds: VecDeque<PCmd>,
    /// results of X's calls: {"s":slot, "res":port|code, "peer":port of the remote end, "kind":..}
    results: Vec<Value>,
    v6: bool,
}

fn io_code(e: &std::io::Error) -> i64 {
    match e.kind() {
        std::io::ErrorKind::AddrInUse => ADDR_IN_USE,
        _ => FAILED,
    }
}

/// The host under test.
async fn ports_x(sh: Rc<RefCell<PortsShared>>, nt: Rc<Notify>) -> turmoil::Result {
    let v6 = sh.borrow().v6;
    let mut socks: BTreeMap<usize, XSock> = BTreeMap::new();
    let mut pending: Vec<(usize, BoxFut<std::io::Result<TcpStream>>)> = Vec::new();
    let mut accepting: Vec<(usize, usize)> = Vec::new();
    loop {
        nt.notified().await;
        // progress of earlier calls
        let mut still = Vec::new();
        for (s, mut fut) in pending.drain(..) {
            match poll_once(&mut fut).await {
                Poll::Ready(Ok(st)) => {
                    let port = st.local_addr().unwrap().port() as i64;
                    let peer = st.peer_addr().unwrap().port();
                    socks.insert(s, XSock::Whole(st));
                    sh.borrow_mut().results.push(json!({"s":s,"res":port,"peer":peer,"kind":"out"}));
                }
                Poll::Ready(Err(e)) => {
                    sh.borrow_mut().results.push(json!({"s":s,"res":FAILED,"err":format!("{:?}", e.kind())}));
                }
                Poll::Pending => still.push((s, fut)),
            }
        }
        pending = still;
        let mut still = Vec::new();
        for (s, l) in accepting.drain(..) {
            let r = match socks.get(&l) {
                Some(XSock::Lst(lst)) => {
                    let mut fut = Box::pin(lst.accept());
                    poll_once(&mut fut).await
                }
                _ => Poll::Ready(Err(std::io::Error::other("no listener"))),
            };
            match r {
                Poll::Ready(Ok((st, from))) => {
                    let port = st.local_addr().unwrap().port() as i64;
                    socks.insert(s, XSock::Whole(st));
                    sh.borrow_mut().results.push(json!({"s":s,"res":port,"peer":from.port(),"kind":"in"}));
                }
                Poll::Ready(Err(_)) => {
                    sh.borrow_mut().results.push(json!({"s":s,"res":FAILED}));
                }
                Poll::Pending => still.push((s, l)),
            }
        }
        accepting = still;
        let cmds: Vec<XCmd> = sh.borrow_mut().xcmds.drain(..).collect();
        for c in cmds {
            match c {
                XCmd::BindUdp { s, p } => {
                    let r = util::catch(|| {
                        let mut fut = Box::pin(UdpSocket::bind((wildcard(v6), p)));
                        futures_now(&mut fut)
                    });
                    let res = match r {
                        Err(_) => EXHAUSTED,
                        Ok(Some(Ok(sock))) => {
                            let port = sock.local_addr().unwrap().port() as i64;
                            socks.insert(s, XSock::Udp(sock));
                            port
                        }
                        Ok(Some(Err(e))) => io_code(&e),
                        Ok(None) => FAILED,
                    };
                    sh.borrow_mut().results.push(json!({"s":s,"res":res}));
                }
                XCmd::BindTcp { s, p } => {
                    let r = util::catch(|| {
                        let mut fut = Box::pin(TcpListener::bind((wildcard(v6), p)));
                        futures_now(&mut fut)
                    });
                    let res = match r {
                        Err(_) => EXHAUSTED,
                        Ok(Some(Ok(l))) => {
                            let port = l.local_addr().unwrap().port() as i64;
                            socks.insert(s, XSock::Lst(l));
                            port
                        }
                        Ok(Some(Err(e))) => io_code(&e),
                        Ok(None) => FAILED,
                    };
                    sh.borrow_mut().results.push(json!({"s":s,"res":res}));
                }
                XCmd::Connect { s, how } => {
                    let mut fut: BoxFut<std::io::Result<TcpStream>> = match how.as_str() {
                        "ok" | "cancel" => Box::pin(TcpStream::connect(("peer", 80))),
                        "refused" => Box::pin(TcpStream::connect(("peer", 81))),
                        _ => {
                            let a: SocketAddr = if v6 {
                                "[fd00::99]:80".parse().unwrap()
                            } else {
                                "10.99.99.99:80".parse().unwrap()
                            };
                            Box::pin(TcpStream::connect(a))
                        }
                    };
                    let r = util::catch(|| futures_now(&mut fut));
                    match r {
                        Err(_) => sh.borrow_mut().results.push(json!({"s":s,"res":EXHAUSTED})),
                        Ok(Some(Ok(st))) => {
                            let port = st.local_addr().unwrap().port() as i64;
                            let peer = st.peer_addr().unwrap().port();
                            socks.insert(s, XSock::Whole(st));
                            sh.borrow_mut().results.push(json!({"s":s,"res":port,"peer":peer,"kind":"out"}));
                        }
                        Ok(Some(Err(e))) => sh
                            .borrow_mut()
                            .results
                            .push(json!({"s":s,"res":FAILED,"err":format!("{:?}", e.kind())})),
                        Ok(None) => pending.push((s, fut)),
                    }
                }
                XCmd::CancelPending => {
                    for (s, fut) in pending.drain(..) {
                        drop(fut);
                        sh.borrow_mut().results.push(json!({"s":s,"res":FAILED,"err":"cancelled"}));
                    }
                }
                XCmd::Accept { s, l } => accepting.push((s, l)),
                XCmd::Drop { s } => {
                    socks.remove(&s);
                }
                XCmd::DropHalf { s, h } => {
                    let cur = socks.remove(&s);
                    let (mut r, mut w) = match cur {
                        Some(XSock::Whole(st)) => {
                            let (r, w) = st.into_split();
                            (Some(r), Some(w))
                        }
                        Some(XSock::Split(r, w)) => (r, w),
                        _ => (None, None),
                    };
                    if h == "r" {
                        r = None;
                    } else {
                        w = None;
                    }
                    if r.is_some() || w.is_some() {
                        socks.insert(s, XSock::Split(r, w));
                    }
                }
            }
        }
    }
}

/// Poll a future once with a no-op waker (for calls whose body is synchronous
/// or whose first poll is what we want to observe, possibly under catch_unwind).
fn futures_now<F: Future + Unpin>(f: &mut F) -> Option<F::Output> {
    let waker = std::task::Waker::noop();
    let mut cx = std::task::Context::from_waker(waker);
    match Pin::new(f).poll(&mut cx) {
        Poll::Ready(v) => Some(v),
        Poll::Pending => None,
    }
}

/// The remote peer: listens on port 80, accepts everything, connects on demand.
async fn ports_peer(sh: Rc<RefCell<PortsShared>>, nt: Rc<Notify>) -> turmoil::Result {
    let v6 = sh.borrow().v6;
    let lst = TcpListener::bind((wildcard(v6), 80)).await?;
    let mut accepted: Vec<(u16, TcpStream)> = Vec::new();
    let mut outs: Vec<(u16, TcpStream)> = Vec::new();
    let mut pending: Vec<BoxFut<std::io::Result<TcpStream>>> = Vec::new();
    loop {
        nt.notified().await;
        loop {
            let mut fut = Box::pin(lst.accept());
            match poll_once(&mut fut).await {
                Poll::Ready(Ok((st, from))) => accepted.push((from.port(), st)),
                _ => break,
            }
        }
        let mut still = Vec::new();
        for mut fut in pending.drain(..) {
            match poll_once(&mut fut).await {
                Poll::Ready(Ok(st)) => outs.push((st.local_addr().unwrap().port(), st)),
                Poll::Ready(Err(_)) => {}
                Poll::Pending => still.push(fut),
            }
        }
        pending = still;
        let cmds: Vec<PCmd> = sh.borrow_mut().pcmds.drain(..).collect();
        for c in cmds {
            match c {
                PCmd::ConnectTo { port } => {
                    let mut fut: BoxFut<std::io::Result<TcpStream>> = Box::pin(TcpStream::connect(("x", port)));
                    match poll_once(&mut fut).await {
                        Poll::Ready(Ok(st)) => outs.push((st.local_addr().unwrap().port(), st)),
                        Poll::Ready(Err(_)) => {}
                        Poll::Pending => pending.push(fut),
                    }
                }
                PCmd::CloseAcc { xport } => accepted.retain(|(p, _)| *p != xport),
                PCmd::CloseOut { pport } => outs.retain(|(p, _)| *p != pport),
                PCmd::CloseAll => {
                    accepted.clear();
                    outs.clear();
                }
            }
        }
    }
}

#[derive(Clone, Debug)]
struct SlotInfo {
    kind: String, // udp | lst | out | in
    port: u16,
    peer: u16,
    r: bool,
    w: bool,
}

struct PortsRun<'a> {
    sim: turmoil::Sim<'a>,
    sh: Rc<RefCell<PortsShared>>,
    nx: Rc<Notify>,
    np: Rc<Notify>,
    slots: BTreeMap<usize, SlotInfo>,
}

impl<'a> PortsRun<'a> {
    fn new(lo: u16, hi: u16, v6: bool, seed: u64) -> PortsRun<'a> {
        let mut b = turmoil::Builder::new();
        b.tick_duration(Duration::from_millis(1))
            .min_message_latency(Duration::from_millis(1))
            .max_message_latency(Duration::from_millis(1))
            .ephemeral_ports(lo..=hi)
            .rng_seed(seed)
            .simulation_duration(Duration::from_secs(36000));
        if v6 {
            b.ip_version(turmoil::IpVersion::V6);
        }
        let mut sim = b.build();
        let sh = Rc::new(RefCell::new(PortsShared { v6, ..Default::default() }));
        let nx = Rc::new(Notify::new());
        let np = Rc::new(Notify::new());
        {
            let (sh, nx) = (sh.clone(), nx.clone());
            sim.host("x", move || ports_x(sh.clone(), nx.clone()));
        }
        {
            let (sh, np) = (sh.clone(), np.clone());
            sim.host("peer", move || ports_peer(sh.clone(), np.clone()));
        }
        let mut r = PortsRun { sim, sh, nx, np, slots: BTreeMap::new() };
        r.steps(2);
        rec::take();
        rec::emit(json!({"ev":"reset"}));
        r
    }

    fn steps(&mut self, n: usize) {
        for _ in 0..n {
            self.nx.notify_one();
            self.np.notify_one();
            self.sim.step().expect("step");
        }
    }

    fn take_result(&mut self, s: usize) -> Option<Value> {
        let mut sh = self.sh.borrow_mut();
        let i = sh.results.iter().position(|r| r["s"].as_u64() == Some(s as u64))?;
        Some(sh.results.remove(i))
    }

    fn wait_result(&mut self, s: usize) -> Value {
        for _ in 0..12 {
            if let Some(r) = self.take_result(s) {
                self.steps(2);
                return r;
            }
            self.steps(1);
        }
        json!({"s":s,"res":FAILED,"err":"unresolved"})
    }

    fn tables(&self) -> Value {
        let t = self.sim.verif_host_tables("x");
        let mut udp = t.udp_binds.clone();
        udp.sort();
        let mut tcp = t.tcp_binds.clone();
        tcp.sort();
        let mut st: Vec<u16> = t.tcp_streams.iter().map(|(l, _)| l.port()).collect();
        st.sort();
        st.dedup();
        json!({"ev":"tables","cur":t.next_ephemeral_port,"udp":udp,"tcp":tcp,"str":st})
    }

    /// After a stream slot of x is completely gone the peer closes its end so
    /// that the 4-tuple may be reused (otherwise: documented "already connected" panic).
    fn peer_close(&mut self, info: &SlotInfo) {
        let c = match info.kind.as_str() {
            "out" => PCmd::CloseAcc { xport: info.port },
            "in" => PCmd::CloseOut { pport: info.peer },
            _ => return,
        };
        self.steps(2);
        self.sh.borrow_mut().pcmds.push_back(c);
        self.steps(3);
    }

    /// Execute one operation; returns the observation event.
    fn op(&mut self, o: &Value) -> Value {
        let a = o["a"].as_str().unwrap();
        let s = o["s"].as_u64().unwrap_or(0) as usize;
        let ev = match a {
            "bind" => {
                let proto = o["proto"].as_str().unwrap();
                let p = o["p"].as_u64().unwrap() as u16;
                let c = if proto == "udp" { XCmd::BindUdp { s, p } } else { XCmd::BindTcp { s, p } };
                self.sh.borrow_mut().xcmds.push_back(c);
                self.steps(1);
                let r = self.wait_result(s);
                let res = r["res"].as_i64().unwrap();
                if res > 0 {
                    self.slots.insert(
                        s,
                        SlotInfo { kind: if proto == "udp" { "udp" } else { "lst" }.into(), port: res as u16, peer: 0, r: true, w: true },
                    );
                }
                json!({"ev":"bind","proto":proto,"s":s,"p":p,"res":res})
            }
            "connect" => {
                let how = o["how"].as_str().unwrap().to_string();
                if how == "cancel" {
                    self.sim.hold("x", "peer");
                }
                self.sh.borrow_mut().xcmds.push_back(XCmd::Connect { s, how: how.clone() });
                self.steps(1);
                if how == "cancel" {
                    // an exhausted attempt has already reported; otherwise cancel it now
                    if self.sh.borrow().results.iter().all(|r| r["s"].as_u64() != Some(s as u64)) {
                        self.sh.borrow_mut().xcmds.push_back(XCmd::CancelPending);
                        self.steps(1);
                    }
                    self.sim.release("x", "peer");
                    self.steps(3);
                }
                let r = self.wait_result(s);
                let res = r["res"].as_i64().unwrap();
                if res > 0 {
                    self.slots.insert(
                        s,
                        SlotInfo { kind: "out".into(), port: res as u16, peer: r["peer"].as_u64().unwrap() as u16, r: true, w: true },
                    );
                }
                json!({"ev":"connect","s":s,"how":how,"res":res,"err":r["err"]})
            }
            "accept" => {
                let l = o["l"].as_u64().unwrap() as usize;
                let lport = self.slots.get(&l).map(|i| i.port).unwrap_or(0);
                self.sh.borrow_mut().xcmds.push_back(XCmd::Accept { s, l });
                self.sh.borrow_mut().pcmds.push_back(PCmd::ConnectTo { port: lport });
                self.steps(1);
                let r = self.wait_result(s);
                let res = r["res"].as_i64().unwrap();
                if res > 0 {
                    self.slots.insert(
                        s,
                        SlotInfo { kind: "in".into(), port: res as u16, peer: r["peer"].as_u64().unwrap() as u16, r: true, w: true },
                    );
                }
                json!({"ev":"accept","s":s,"l":l,"res":res})
            }
            "drop" => {
                self.sh.borrow_mut().xcmds.push_back(XCmd::Drop { s });
                self.steps(1);
                if let Some(info) = self.slots.remove(&s) {
                    self.peer_close(&info);
                }
                json!({"ev":"drop","s":s})
            }
            "drop_half" => {
                let h = o["h"].as_str().unwrap().to_string();
                self.sh.borrow_mut().xcmds.push_back(XCmd::DropHalf { s, h: h.clone() });
                self.steps(1);
                let mut gone = None;
                if let Some(info) = self.slots.get_mut(&s) {
                    if h == "r" {
                        info.r = false;
                    } else {
                        info.w = false;
                    }
                    if !info.r && !info.w {
                        gone = Some(info.clone());
                    }
                }
                if let Some(info) = gone {
                    self.slots.remove(&s);
                    self.peer_close(&info);
                }
                json!({"ev":"drop_half","s":s,"h":h})
            }
            "crash" => {
                self.sim.crash("x");
                self.sh.borrow_mut().xcmds.clear();
                self.sh.borrow_mut().results.clear();
                self.steps(2);
                self.sh.borrow_mut().pcmds.push_back(PCmd::CloseAll);
                self.steps(3);
                self.sim.bounce("x");
                self.steps(2);
                self.slots.clear();
                json!({"ev":"crash"})
            }
            other => panic!("unknown ports op {other}"),
        };
        self.steps(1);
        ev
    }
}

// ---- DNS ------------------------------------------------------------------

fn dns_name(n: u64) -> String {
    // distinct prefixes so that prefix patterns select non-trivial subsets
    let pre = ["alpha", "beta", "gamma", "delta"][(n % 4) as usize];
    format!("{pre}-{n}")
}

fn dns_name_id(s: &str) -> u64 {
    s.rsplit_once('-').and_then(|x| x.1.parse().ok()).unwrap_or(0)
}

fn addr_offset(a: IpAddr) -> i64 {
    match a {
        IpAddr::V4(v) => {
            let o = v.octets();
            if o[0] == 192 && o[1] == 168 {
                (o[2] as i64) * 256 + o[3] as i64
            } else {
                -1
            }
        }
        IpAddr::V6(v) => {
            let s = v.segments();
            if s[0] == 0xfe80 && s[1] == 0 && s[2] == 0 && s[3] == 0 && s[4] == 0 && s[5] == 0 {
                ((s[6] as i64) << 16) | s[7] as i64
            } else {
                -1
            }
        }
    }
}

fn offset_addr(k: u64, v6: bool) -> IpAddr {
    if v6 {
        IpAddr::V6(Ipv6Addr::new(0xfe80, 0, 0, 0, 0, 0, (k >> 16) as u16, (k & 0xffff) as u16))
    } else {
        IpAddr::V4(Ipv4Addr::new(192, 168, (k >> 8) as u8, (k & 0xff) as u8))
    }
}

struct DnsRun<'a> {
    sim: turmoil::Sim<'a>,
    v6: bool,
    universe: u64,
}

impl<'a> DnsRun<'a> {
    fn new(v6: bool, universe: u64) -> DnsRun<'a> {
        let mut b = turmoil::Builder::new();
        if v6 {
            b.ip_version(turmoil::IpVersion::V6);
        }
        rec::take();
        rec::emit(json!({"ev":"reset"}));
        DnsRun { sim: b.build(), v6, universe }
    }

    fn op(&mut self, o: &Value, variant: u64) -> Value {
        match o["a"].as_str().unwrap() {
            "lookup" => {
                let n = o["n"].as_u64().unwrap();
                let a = if variant % 2 == 0 { self.sim.lookup(dns_name(n)) } else { self.sim.lookup(&dns_name(n)[..]) };
                json!({"ev":"lookup","n":n,"res":addr_offset(a)})
            }
            "reverse" => {
                let k = o["k"].as_u64().unwrap();
                let r = self.sim.reverse_lookup(offset_addr(k, self.v6));
                json!({"ev":"reverse","k":k,"res":r.map(|s| dns_name_id(&s)).unwrap_or(0)})
            }
            "literal" => {
                let k = o["k"].as_u64().unwrap();
                // inside the subnet (possibly unassigned), outside it, and the other family
                let lit: IpAddr = match variant % 4 {
                    0 => offset_addr(k + 7, self.v6),
                    1 => "10.1.2.3".parse().unwrap(),
                    2 => "fd00::1234".parse().unwrap(),
                    _ => offset_addr(1, self.v6),
                };
                let got = match variant % 3 {
                    0 => self.sim.lookup(lit),
                    1 => self.sim.lookup(lit.to_string()),
                    _ => self.sim.lookup_many(lit).first().copied().unwrap_or(lit),
                };
                json!({"ev":"literal","same":got == lit,"lit":lit.to_string()})
            }
            "regex" => {
                let (pat, m): (String, Vec<u64>) = if let Some(p) = o["pat"].as_str() {
                    let re = regex::Regex::new(p).unwrap();
                    (p.to_string(), (1..=self.universe).filter(|n| re.is_match(&dns_name(*n))).collect())
                } else {
                    let m: Vec<u64> = o["m"].as_array().unwrap().iter().map(|v| v.as_u64().unwrap()).collect();
                    let alts: Vec<String> = m.iter().map(|n| dns_name(*n)).collect();
                    (if alts.is_empty() { "^$".to_string() } else { format!("^({})$", alts.join("|")) }, m)
                };
                let res = self.sim.lookup_many(regex::Regex::new(&pat).unwrap());
                let res: Vec<i64> = res.into_iter().map(addr_offset).collect();
                json!({"ev":"regex","m":m,"res":res,"pat":pat})
            }
            other => panic!("unknown dns op {other}"),
        }
    }
}

fn is_dns_op(a: &str) -> bool {
    matches!(a, "lookup" | "reverse" | "literal" | "regex")
}

/// Replay one TLC history; returns (divergence, recorded trace, nontrivial).
fn ports_replay_one(beh: &[Value], lo: u16, hi: u16, v6: bool, full: bool) -> (Option<Value>, Vec<Value>, bool) {
    let mut div = None;
    let mut nontrivial = false;
    let dns_mode = beh.first().map(|e| is_dns_op(e["op"]["a"].as_str().unwrap())).unwrap_or(false);
    if dns_mode {
        let mut run = DnsRun::new(v6, 16);
        for (i, e) in beh.iter().enumerate() {
            let ev = run.op(&e["op"], i as u64);
            let a = e["op"]["a"].as_str().unwrap();
            let ok = match a {
                "literal" => ev["same"] == json!(true),
                _ => ev["res"] == e["op"]["res"],
            };
            if a != "lookup" {
                nontrivial = true;
            }
            rec::emit(ev.clone());
            if !ok && div.is_none() {
                div = Some(json!({"at":i,"what":a,"want":e["op"],"got":ev}));
                if !full {
                    break;
                }
            }
        }
        return (div, rec::take(), nontrivial);
    }
    let mut run = PortsRun::new(lo, hi, v6, 1);
    for (i, e) in beh.iter().enumerate() {
        let ev = run.op(&e["op"]);
        let a = e["op"]["a"].as_str().unwrap();
        if matches!(a, "drop" | "drop_half" | "crash") {
            nontrivial = true;
        }
        rec::emit(ev.clone());
        let t = run.tables();
        rec::emit(t.clone());
        if div.is_none() {
            if ev.get("res").is_some() && ev["res"] != e["op"]["res"] {
                div = Some(json!({"at":i,"what":"result","want":e["op"],"got":ev}));
            } else if t["cur"] != e["cur"] || t["udp"] != e["udp"] || t["tcp"] != e["tcp"] || t["str"] != e["str"] {
                div = Some(json!({"at":i,"what":"tables","want":{"cur":e["cur"],"udp":e["udp"],"tcp":e["tcp"],"str":e["str"]},"got":t}));
            }
            if div.is_some() && !full {
                break;
            }
        }
    }
    (div, rec::take(), nontrivial)
}

fn main_ports_replay(args: &[String]) {
    let inp = util::arg(args, "in").expect("in=");
    let out = util::arg(args, "out").expect("out=");
    let traces = util::arg(args, "traces");
    let lo = util::arg_u64(args, "lo", 49152) as u16;
    let hi = util::arg_u64(args, "hi", 49154) as u16;
    let v6 = util::arg_u64(args, "v6", 0) == 1;
    let text = std::fs::read_to_string(&inp).expect("read behaviours");
    let (mut total, mut nontrivial, mut ndiv) = (0u64, 0u64, 0u64);
    let mut divs: Vec<Value> = Vec::new();
    let mut samples: Vec<Value> = Vec::new();
    for (k, line) in text.lines().enumerate() {
        if line.trim().is_empty() {
            continue;
        }
        let beh: Vec<Value> = serde_json::from_str(line).expect("behaviour json");
        let (d, tr, nt) = match util::catch(|| ports_replay_one(&beh, lo, hi, v6, false)) {
            Ok(x) => x,
            Err(p) => (Some(json!({"what":"panic","msg":p})), vec![], false),
        };
        total += 1;
        if nt {
            nontrivial += 1;
        }
        if samples.len() < 2 && nt && beh.len() >= 3 {
            samples.push(json!({"behaviour": beh, "trace_excerpt": tr.iter().take(10).collect::<Vec<_>>()}));
        }
        if let Some(mut d) = d {
            ndiv += 1;
            if divs.len() < 20 {
                d["line"] = json!(k);
                d["behaviour"] = json!(beh);
                if let Some(dir) = &traces {
                    let p = format!("{dir}/div-{}.ndjson", divs.len());
                    let full = util::catch(|| ports_replay_one(&beh, lo, hi, v6, true)).map(|r| r.1).unwrap_or(tr);
                    util::write_ndjson(&p, &full);
                    d["trace"] = json!(p);
                }
                divs.push(d);
            }
        }
    }
    let summary = json!({"behaviours": total, "nontrivial": nontrivial, "divergent": ndiv,
        "divergences": divs, "samples": samples});
    std::fs::write(&out, serde_json::to_string(&summary).unwrap()).unwrap();
    println!("replayed={total} nontrivial={nontrivial} divergent={ndiv}");
}

/// Seeded random histories on the host under test (ports) and random DNS sessions.
fn main_ports_random(args: &[String]) {
    let seed = util::arg_u64(args, "seed", 1);
    let runs = util::arg_u64(args, "runs", 10);
    let nops = util::arg_u64(args, "ops", 40);
    let lo = util::arg_u64(args, "lo", 49152) as u16;
    let hi = util::arg_u64(args, "hi", 49156) as u16;
    let maxsock = util::arg_u64(args, "maxsock", 8) as usize;
    let names = util::arg_u64(args, "names", 40);
    let out = util::arg(args, "out").expect("out=");
    let mut rng = SmallRng::seed_from_u64(seed ^ 0x706f7274);
    let mut all: Vec<Value> = Vec::new();
    let (mut nport, mut ndns) = (0u64, 0u64);
    let fixed: Vec<u16> = vec![lo + 1, hi, 9];
    for r in 0..runs {
        let v6 = rng.random_bool(0.5);
        // ---- ports session
        let mut run = PortsRun::new(lo, hi, v6, seed * 1000 + r);
        let mut nin = 0;
        for _ in 0..nops {
            let free = (1..=maxsock).find(|s| !run.slots.contains_key(s));
            let live: Vec<usize> = run.slots.keys().copied().collect();
            let lsts: Vec<usize> = run.slots.iter().filter(|(_, i)| i.kind == "lst").map(|(s, _)| *s).collect();
            let strs: Vec<usize> = run.slots.iter().filter(|(_, i)| i.kind == "out" || i.kind == "in").map(|(s, _)| *s).collect();
            let pick = rng.random_range(0..100);
            let o = if let (true, Some(s)) = (pick < 55, free) {
                match rng.random_range(0..9) {
                    0 | 1 => json!({"a":"bind","proto":"udp","s":s,"p": if rng.random_bool(0.6) {0} else {fixed[rng.random_range(0..fixed.len())]}}),
                    2 | 3 => json!({"a":"bind","proto":"tcp","s":s,"p": if rng.random_bool(0.6) {0} else {fixed[rng.random_range(0..fixed.len())]}}),
                    4 | 5 => json!({"a":"connect","s":s,"how":"ok"}),
                    6 => json!({"a":"connect","s":s,"how":["refused","noroute","cancel"][rng.random_range(0..3)]}),
                    _ => {
                        if !lsts.is_empty() && nin < (hi - lo + 1) {
                            nin += 1;
                            json!({"a":"accept","s":s,"l":lsts[rng.random_range(0..lsts.len())]})
                        } else {
                            json!({"a":"connect","s":s,"how":"refused"})
                        }
                    }
                }
            } else if pick < 90 && !live.is_empty() {
                if !strs.is_empty() && rng.random_bool(0.4) {
                    let s = strs[rng.random_range(0..strs.len())];
                    let i = &run.slots[&s];
                    let h = if i.r && (!i.w || rng.random_bool(0.5)) { "r" } else { "w" };
                    json!({"a":"drop_half","s":s,"h":h})
                } else {
                    json!({"a":"drop","s":live[rng.random_range(0..live.len())]})
                }
            } else if pick >= 96 && !live.is_empty() {
                nin = 0;
                json!({"a":"crash"})
            } else {
                continue;
            };
            let ev = run.op(&o);
            rec::emit(ev);
            rec::emit(run.tables());
            nport += 1;
        }
        all.extend(rec::take());
        // ---- DNS session
        let mut d = DnsRun::new(v6, names);
        let mut registered: Vec<u64> = Vec::new();
        for i in 0..(nops * 2) {
            let o = match rng.random_range(0..10) {
                0..=4 => {
                    let n = rng.random_range(1..=names);
                    if !registered.contains(&n) {
                        registered.push(n);
                    }
                    json!({"a":"lookup","n":n})
                }
                5 | 6 => json!({"a":"reverse","k":rng.random_range(1..=(registered.len() as u64 + 2))}),
                7 => json!({"a":"literal","k":rng.random_range(0..500)}),
                _ => {
                    let pats = ["^alpha", "^beta-1", "a-\\d$", "^(gamma|delta)-", "-7$", ".*", "^nomatch$", "^delta-[0-9]+$"];
                    json!({"a":"regex","pat":pats[rng.random_range(0..pats.len())]})
                }
            };
            let ev = d.op(&o, i + r);
            rec::emit(ev);
            ndns += 1;
        }
        all.extend(rec::take());
    }
    util::write_ndjson(&out, &all);
    println!("runs={runs} events={} port_ops={nport} dns_ops={ndns}", all.len());
}

fn main() {
    let args: Vec<String> = std::env::args().skip(1).collect();
    match args.first().map(|s| s.as_str()) {
        Some("ports-replay") => main_ports_replay(&args[1..]),
        Some("ports-random") => main_ports_random(&args[1..]),
        _ => {
            eprintln!("usage: msgtcp ports-replay|ports-random|tcp-replay|tcp-random key=value...");
            std::process::exit(2);
        }
    }
}
