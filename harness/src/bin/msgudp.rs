//! Driver for turmoil's message-level UDP (specs/msgudp): C09.
//!
//! Modes
//!   replay in=<behaviours.ndjson> out=<summary.json> traces=<dir> n=<hosts> cap=<udp_capacity>
//!          nfixed=<fixed ports> neph=<ephemeral ports> [v6=1]
//!       every line is one TLC-generated behaviour of MsgUdpGen ({"beh": [...], "fin": {...}});
//!       it is executed against the real `turmoil::Sim` (links held, copies delivered one
//!       at a time through `Sim::links` in the order TLC chose, one action per step) and
//!       every observation (results of the socket calls, in-flight copies, hook tables,
//!       hand-over events, final queue contents) is compared with what TLC predicted.
//!       Divergent behaviours get their recorded event trace written to
//!       <traces>/div-<k>.ndjson so the PropSpec can judge them.
//!   random seed=<s> runs=<n> n=<hosts> cap=<c> nfixed=<f> neph=<e> tick=<ms> gmin=<ms> gmax=<ms>
//!          [v6=1] [steps=<k>] out=<trace.ndjson>
//!       seeded random scenarios on healthy, unheld links with sampled latencies that
//!       reorder datagrams, random host order, slow receivers; writes one concatenated
//!       event trace (runs separated by `reset`).
use rand::rngs::SmallRng;
use rand::{Rng, SeedableRng};
use serde_json::{json, Value};
use std::cell::RefCell;
use std::collections::{BTreeMap, BTreeSet, VecDeque};
use std::future::Future;
use std::net::{IpAddr, Ipv4Addr, Ipv6Addr, SocketAddr};
use std::rc::Rc;
use std::str::FromStr;
use std::task::{Context, Poll, Waker};
use std::time::Duration;
use tokio::sync::Notify;
use turmoil::net::UdpSocket;
use vh::{rec, util};

const FIXED_BASE: u16 = 9000;
const EPH_BASE: u16 = 49152;

#[derive(Clone, Debug, PartialEq)]
struct Addr {
    k: String, // "host" | "lo" | "none"
    h: usize,
    p: u16, // model port
}
impl Addr {
    fn json(&self) -> Value {
        json!({"k": self.k, "h": self.h, "p": self.p})
    }
    fn from_json(v: &Value) -> Addr {
        Addr { k: v["k"].as_str().unwrap().to_string(), h: v["h"].as_u64().unwrap() as usize, p: v["p"].as_u64().unwrap() as u16 }
    }
}

#[derive(Clone, Debug)]
struct Dst {
    k: String, // "host" | "lo" | "bcast" | "mc"
    h: usize,
    g: u16,
    p: u16,
}
impl Dst {
    fn json(&self) -> Value {
        json!({"k": self.k, "h": self.h, "g": self.g, "p": self.p})
    }
    fn from_json(v: &Value) -> Dst {
        Dst {
            k: v["k"].as_str().unwrap().to_string(),
            h: v["h"].as_u64().unwrap() as usize,
            g: v["g"].as_u64().unwrap() as u16,
            p: v["p"].as_u64().unwrap() as u16,
        }
    }
}

#[derive(Clone, Debug)]
enum Cmd {
    Bind { kind: String, p: u16 }, // p = 0: ephemeral
    Drop { p: u16 },
    Connect { p: u16, peer: Addr },
    Join { p: u16, g: u16 },
    Leave { p: u16, g: u16 },
    SetBc { p: u16, on: bool },
    SetMl { p: u16, on: bool },
    Send { p: u16, dst: Dst, len: usize, api: u8 },
    Recv { p: u16, buf: usize, api: u8 },
    Readable { p: u16 },
    RecvWait { p: u16, buf: usize, ms: u64 }, // random mode: blocks in recv_from up to ms
    Sleep { ms: u64 },
}

#[derive(Clone)]
struct Geo {
    n: usize,
    nfixed: u16,
    neph: u16,
    v6: bool,
    addrs: Vec<IpAddr>, // index = host (slot 0 unused)
}
impl Geo {
    fn real_port(&self, p: u16) -> u16 {
        if p == 0 {
            0
        } else if p <= self.nfixed {
            FIXED_BASE + p
        } else {
            EPH_BASE + (p - self.nfixed - 1)
        }
    }
    fn model_port(&self, rp: u16) -> u16 {
        if rp >= EPH_BASE {
            self.nfixed + 1 + (rp - EPH_BASE)
        } else if rp > FIXED_BASE {
            rp - FIXED_BASE
        } else {
            0
        }
    }
    fn any(&self) -> IpAddr {
        if self.v6 { IpAddr::V6(Ipv6Addr::UNSPECIFIED) } else { IpAddr::V4(Ipv4Addr::UNSPECIFIED) }
    }
    fn lo(&self) -> IpAddr {
        if self.v6 { IpAddr::V6(Ipv6Addr::LOCALHOST) } else { IpAddr::V4(Ipv4Addr::LOCALHOST) }
    }
    fn group(&self, g: u16) -> IpAddr {
        if self.v6 {
            IpAddr::V6(Ipv6Addr::new(0xff08, 0, 0, 0, 0, 0, 0, g))
        } else {
            IpAddr::V4(Ipv4Addr::new(239, 1, 1, g as u8))
        }
    }
    fn host_of(&self, ip: IpAddr) -> usize {
        self.addrs.iter().position(|a| *a == ip).unwrap_or(0)
    }
    /// model address of a real socket address as seen at host `local`
    fn addr(&self, sa: SocketAddr, local: usize) -> Addr {
        if sa.ip().is_loopback() {
            Addr { k: "lo".into(), h: local, p: self.model_port(sa.port()) }
        } else {
            Addr { k: "host".into(), h: self.host_of(sa.ip()), p: self.model_port(sa.port()) }
        }
    }
    fn real_addr(&self, a: &Addr) -> SocketAddr {
        match a.k.as_str() {
            "lo" => SocketAddr::new(self.lo(), self.real_port(a.p)),
            _ => SocketAddr::new(self.addrs[a.h], self.real_port(a.p)),
        }
    }
    fn real_dst(&self, d: &Dst) -> SocketAddr {
        let port = self.real_port(d.p);
        match d.k.as_str() {
            "host" => {
                if d.h == 0 {
                    // an address no host owns
                    let ip = if self.v6 {
                        IpAddr::V6(Ipv6Addr::new(0xfe80, 0, 0, 0, 0, 0, 0, 0x77))
                    } else {
                        IpAddr::V4(Ipv4Addr::new(192, 168, 0, 0x77))
                    };
                    SocketAddr::new(ip, port)
                } else {
                    SocketAddr::new(self.addrs[d.h], port)
                }
            }
            "lo" => SocketAddr::new(self.lo(), port),
            "bcast" => SocketAddr::new(IpAddr::V4(Ipv4Addr::BROADCAST), port),
            "mc" => SocketAddr::new(self.group(d.g), port),
            other => panic!("dst kind {other}"),
        }
    }
}

/// Zero-length datagrams carry no id: the drivers keep at most one of them per
/// source port in flight, so a zero-length packet seen on a link or handed to a
/// host is the most recent zero-length send from that (model) source port.
/// port -> (datagram id, sender host)
type ZLast = BTreeMap<u16, (u64, usize)>;

struct Shared {
    geo: Geo,
    cmds: Vec<VecDeque<Cmd>>, // index = host
    next_sid: u64,
    next_id: u64,
    sid_host: Vec<usize>, // index = sid
    ports: Vec<BTreeSet<u16>>, // per host: model ports currently bound (as the puppets report)
    busy: Vec<bool>,           // per host: the puppet is in the middle of its script (blocked in a call)
}

fn payload(id: u64, sid: u64, len: usize) -> Vec<u8> {
    (1..=len).map(|i| if i == 1 { id as u8 } else if i == 2 { sid as u8 } else { i as u8 }).collect()
}

fn poll_once<F: Future>(f: F) -> Option<F::Output> {
    let mut f = Box::pin(f);
    let w = Waker::noop();
    let mut cx = Context::from_waker(w);
    match f.as_mut().poll(&mut cx) {
        Poll::Ready(v) => Some(v),
        Poll::Pending => None,
    }
}

fn at() -> u64 {
    turmoil::elapsed().as_millis() as u64
}

fn empty_res() -> Value {
    json!({"k":"empty","len":0,"o":{"k":"none","h":0,"p":0},"data":[]})
}

async fn exec(h: usize, c: Cmd, socks: &mut BTreeMap<u16, (u64, Rc<UdpSocket>)>, shared: &Rc<RefCell<Shared>>) {
    let geo = shared.borrow().geo.clone();
    match c {
        Cmd::Bind { kind, p } => {
            let ip = if kind == "lo" { geo.lo() } else { geo.any() };
            let r = UdpSocket::bind(SocketAddr::new(ip, geo.real_port(p))).await;
            match r {
                Ok(s) => {
                    let mp = geo.model_port(s.local_addr().unwrap().port());
                    let sid = {
                        let mut sh = shared.borrow_mut();
                        sh.next_sid += 1;
                        sh.sid_host.push(h);
                        sh.ports[h].insert(mp);
                        sh.next_sid
                    };
                    socks.insert(mp, (sid, Rc::new(s)));
                    rec::emit(json!({"ev":"bind","at":at(),"h":h,"kind":kind,"p":mp,"eph":p == 0,"res":"ok","sid":sid}));
                }
                Err(e) => {
                    let res = if e.kind() == std::io::ErrorKind::AddrInUse { "inuse" } else { "err" };
                    rec::emit(json!({"ev":"bind","at":at(),"h":h,"kind":kind,"p":p,"eph":p == 0,"res":res,"sid":0}));
                }
            }
        }
        Cmd::Drop { p } => {
            if let Some((sid, s)) = socks.remove(&p) {
                drop(s);
                shared.borrow_mut().ports[h].remove(&p);
                rec::emit(json!({"ev":"drop","at":at(),"h":h,"p":p,"sid":sid}));
            }
        }
        Cmd::Connect { p, peer } => {
            if let Some((sid, s)) = socks.get(&p) {
                let r = s.connect(geo.real_addr(&peer)).await;
                rec::emit(json!({"ev":"connect","at":at(),"h":h,"p":p,"sid":sid,"peer":peer.json(),"ok":r.is_ok()}));
            }
        }
        Cmd::Join { p, g } => {
            if let Some((sid, s)) = socks.get(&p) {
                let r = match geo.group(g) {
                    IpAddr::V4(m) => s.join_multicast_v4(m, Ipv4Addr::UNSPECIFIED),
                    IpAddr::V6(m) => s.join_multicast_v6(&m, 0),
                };
                rec::emit(json!({"ev":"join","at":at(),"h":h,"p":p,"sid":sid,"g":g,"res":if r.is_ok() {"ok"} else {"err"}}));
            }
        }
        Cmd::Leave { p, g } => {
            if let Some((sid, s)) = socks.get(&p) {
                let r = match geo.group(g) {
                    IpAddr::V4(m) => s.leave_multicast_v4(m, Ipv4Addr::UNSPECIFIED),
                    IpAddr::V6(m) => s.leave_multicast_v6(&m, 0),
                };
                rec::emit(json!({"ev":"leave","at":at(),"h":h,"p":p,"sid":sid,"g":g,"res":if r.is_ok() {"ok"} else {"err"}}));
            }
        }
        Cmd::SetBc { p, on } => {
            if let Some((sid, s)) = socks.get(&p) {
                s.set_broadcast(on).unwrap();
                let back = s.broadcast().unwrap();
                rec::emit(json!({"ev":"setbc","at":at(),"h":h,"p":p,"sid":sid,"on":on,"back":back}));
            }
        }
        Cmd::SetMl { p, on } => {
            if let Some((sid, s)) = socks.get(&p) {
                if geo.v6 {
                    s.set_multicast_loop_v6(on).unwrap();
                } else {
                    s.set_multicast_loop_v4(on).unwrap();
                }
                let back = if geo.v6 { s.multicast_loop_v6().unwrap() } else { s.multicast_loop_v4().unwrap() };
                rec::emit(json!({"ev":"setml","at":at(),"h":h,"p":p,"sid":sid,"on":on,"back":back}));
            }
        }
        Cmd::Send { p, dst, len, api } => {
            if let Some((sid, s)) = socks.get(&p) {
                let id = {
                    let mut sh = shared.borrow_mut();
                    sh.next_id += 1;
                    sh.next_id
                };
                let bytes = payload(id, *sid, len);
                rec::emit(json!({"ev":"send_begin","at":at(),"id":id,"h":h,"p":p,"sid":sid,"dst":dst.json(),"len":len}));
                let target = geo.real_dst(&dst);
                let r = if api == 0 { s.send_to(&bytes, target).await } else { s.try_send_to(&bytes, target) };
                let (res, n) = match &r {
                    Ok(n) => ("ok", *n),
                    Err(_) => ("err", 0),
                };
                rec::emit(json!({"ev":"send_end","id":id,"res":res,"n":n,
                    "errkind": r.as_ref().err().map(|e| format!("{:?}", e.kind()))}));
            }
        }
        Cmd::Recv { p, buf, api } => {
            if let Some((sid, s)) = socks.get(&p) {
                let mut b = vec![0u8; buf];
                let r = if api == 0 {
                    s.try_recv_from(&mut b).ok()
                } else {
                    poll_once(s.recv_from(&mut b)).and_then(|r| r.ok())
                };
                let res = match r {
                    Some((n, from)) => json!({"k":"data","len":n,"o":geo.addr(from, h).json(),"data":b[..n.min(buf)].to_vec()}),
                    None => empty_res(),
                };
                rec::emit(json!({"ev":"recv","at":at(),"h":h,"p":p,"sid":sid,"buf":buf,"api":api,"res":res}));
            }
        }
        Cmd::RecvWait { p, buf, ms } => {
            if let Some((sid, s)) = socks.get(&p) {
                let s = s.clone();
                let mut b = vec![0u8; buf];
                let r = tokio::time::timeout(Duration::from_millis(ms), s.recv_from(&mut b)).await;
                let res = match r {
                    Ok(Ok((n, from))) => json!({"k":"data","len":n,"o":geo.addr(from, h).json(),"data":b[..n.min(buf)].to_vec()}),
                    _ => empty_res(),
                };
                rec::emit(json!({"ev":"recv","at":at(),"h":h,"p":p,"sid":sid,"buf":buf,"api":2,"res":res}));
            }
        }
        Cmd::Readable { p } => {
            if let Some((sid, s)) = socks.get(&p) {
                let r = poll_once(s.readable());
                rec::emit(json!({"ev":"readable","at":at(),"h":h,"p":p,"sid":sid,"res":if r.is_some() {"ok"} else {"pending"}}));
            }
        }
        Cmd::Sleep { ms } => {
            tokio::time::sleep(Duration::from_millis(ms)).await;
        }
    }
}

async fn puppet(h: usize, shared: Rc<RefCell<Shared>>, notify: Rc<Notify>) -> turmoil::Result {
    let mut socks: BTreeMap<u16, (u64, Rc<UdpSocket>)> = BTreeMap::new();
    loop {
        notify.notified().await;
        rec::emit(json!({"ev":"wake","h":h}));
        shared.borrow_mut().busy[h] = true;
        loop {
            let c = shared.borrow_mut().cmds[h].pop_front();
            match c {
                Some(c) => exec(h, c, &mut socks, &shared).await,
                None => break,
            }
        }
        shared.borrow_mut().busy[h] = false;
    }
}

struct Cfg {
    n: usize,
    cap: usize,
    nfixed: u16,
    neph: u16,
    v6: bool,
    tick: u64,
    gmin: u64,
    gmax: u64,
    hold: bool,
    random_order: bool,
    seed: u64,
}

struct Run<'a> {
    sim: turmoil::Sim<'a>,
    shared: Rc<RefCell<Shared>>,
    notifies: Vec<Rc<Notify>>,
    geo: Geo,
    zl: ZLast,
}

impl<'a> Run<'a> {
    fn new(cfg: &Cfg) -> Run<'a> {
        let mut b = turmoil::Builder::new();
        b.tick_duration(Duration::from_millis(cfg.tick))
            .min_message_latency(Duration::from_millis(cfg.gmin))
            .max_message_latency(Duration::from_millis(cfg.gmax))
            .udp_capacity(cfg.cap)
            .ephemeral_ports(EPH_BASE..=EPH_BASE + cfg.neph.max(1) - 1)
            .rng_seed(cfg.seed)
            .simulation_duration(Duration::from_secs(36000));
        if cfg.v6 {
            b.ip_version(turmoil::IpVersion::V6);
        }
        if cfg.random_order {
            b.enable_random_order();
        }
        let mut sim = b.build();
        let geo = Geo { n: cfg.n, nfixed: cfg.nfixed, neph: cfg.neph, v6: cfg.v6, addrs: vec![IpAddr::V4(Ipv4Addr::UNSPECIFIED)] };
        let shared = Rc::new(RefCell::new(Shared {
            geo: geo.clone(),
            cmds: (0..=cfg.n).map(|_| VecDeque::new()).collect(),
            next_sid: 0,
            next_id: 0,
            sid_host: vec![0],
            ports: (0..=cfg.n).map(|_| BTreeSet::new()).collect(),
            busy: vec![false; cfg.n + 1],
        }));
        let mut notifies = vec![Rc::new(Notify::new())];
        let mut addrs = vec![IpAddr::V4(Ipv4Addr::UNSPECIFIED)];
        for h in 1..=cfg.n {
            let nt = Rc::new(Notify::new());
            notifies.push(nt.clone());
            let sh = shared.clone();
            sim.host(format!("h{h}"), move || puppet(h, sh.clone(), nt.clone()));
            addrs.push(sim.lookup(format!("h{h}")));
        }
        shared.borrow_mut().geo.addrs = addrs.clone();
        let geo = shared.borrow().geo.clone();
        if cfg.hold {
            for a in 1..=cfg.n {
                for b in (a + 1)..=cfg.n {
                    sim.hold(format!("h{a}"), format!("h{b}"));
                }
            }
        }
        // warm-up step: puppets start and park on their Notify
        sim.step().expect("warm-up step");
        rec::take();
        rec::emit(json!({"ev":"reset","n":cfg.n,"cap":cfg.cap}));
        Run { sim, shared, notifies, geo, zl: ZLast::new() }
    }

    /// one Sim::step with the given per-host scripts (hosts with a script are woken)
    fn step(&mut self, per_host: Vec<(usize, Vec<Cmd>)>) {
        for (h, cmds) in per_host {
            self.shared.borrow_mut().cmds[h].extend(cmds);
            self.notifies[h].notify_one();
        }
        rec::emit(json!({"ev":"step","t0":self.sim.elapsed().as_millis() as u64}));
        self.sim.step().expect("step");
        rec::emit(json!({"ev":"step_end"}));
    }

    fn idle_step(&mut self) {
        self.step(vec![]);
    }

    /// in-flight copies on the links: (id, dst host, dst model port)
    fn links(&self) -> Vec<(u64, usize, u16)> {
        let mut out = Vec::new();
        let geo = &self.geo;
        let zl = &self.zl;
        self.sim.links(|links| {
            for link in links {
                for sent in link {
                    let (src, dst) = sent.pair();
                    let s = format!("{}", sent.protocol());
                    let bytes = util::parse_hex_payload(&s).unwrap_or_default();
                    let id = match bytes.first() {
                        Some(b) => *b as u64,
                        None => zl.get(&geo.model_port(src.port())).map(|x| x.0).unwrap_or(0),
                    };
                    out.push((id, geo.host_of(dst.ip()), geo.model_port(dst.port())));
                }
            }
        });
        out
    }

    fn links_event(&self) -> BTreeSet<(u64, usize, u16)> {
        let l = self.links();
        let v: Vec<Value> = l.iter().map(|(i, t, p)| json!([i, t, p])).collect();
        rec::emit(json!({"ev":"links","net":v}));
        l.into_iter().collect()
    }

    /// SentRef::deliver on the copy of datagram id addressed to (t, p)
    fn manual(&mut self, id: u64, t: usize, p: u16) -> bool {
        let geo = &self.geo;
        let zl = &self.zl;
        let mut hit = false;
        self.sim.links(|links| {
            for link in links {
                for sent in link {
                    if hit {
                        continue;
                    }
                    let (src, dst) = sent.pair();
                    let s = format!("{}", sent.protocol());
                    let bytes = util::parse_hex_payload(&s).unwrap_or_default();
                    let sid = match bytes.first() {
                        Some(b) => *b as u64,
                        None => zl.get(&geo.model_port(src.port())).map(|x| x.0).unwrap_or(0),
                    };
                    if sid == id && geo.host_of(dst.ip()) == t && geo.model_port(dst.port()) == p {
                        sent.deliver();
                        hit = true;
                    }
                }
            }
        });
        rec::emit(json!({"ev":"manual","id":id,"h":t,"p":p,"hit":hit}));
        hit
    }

    /// remember zero-length sends (see ZLast) from raw puppet records
    fn note_zero(&mut self, raw: &[Value]) {
        for e in raw {
            if e["ev"] == "send_begin" && e["len"] == json!(0) {
                self.zl.insert(e["p"].as_u64().unwrap() as u16, (e["id"].as_u64().unwrap(), e["h"].as_u64().unwrap() as usize));
            }
        }
    }

    /// everything recorded since the last call (zero-length sends are remembered on the way)
    fn take(&mut self) -> Vec<Value> {
        let r = rec::take();
        self.note_zero(&r);
        r
    }

    fn tables_event(&self) -> Value {
        let mut udp = Vec::new();
        let mut mm = Vec::new();
        for h in 1..=self.geo.n {
            let t = self.sim.verif_host_tables(self.geo.addrs[h]);
            let mut ports: Vec<u16> = t.udp_binds.iter().map(|p| self.geo.model_port(*p)).collect();
            ports.sort();
            udp.push(ports);
            mm.push(t.multicast_memberships);
        }
        let v = json!({"ev":"tables","udp":udp,"mm":mm});
        rec::emit(v.clone());
        v
    }
}

/// Turn the raw recorded stream (harness + puppet records interleaved with
/// turmoil's tracing events) into model-level events.  Purely syntactic:
/// `Send` tracing events between send_begin/send_end are folded into the
/// `send` record (the copies put on links), every `Delivered` event becomes an
/// `arrive` event.
fn postprocess(raw: Vec<Value>, geo: &Geo, sid_host: &[usize], zl: &mut ZLast) -> Vec<Value> {
    let mut out = Vec::new();
    let mut cur_send: Option<Value> = None;
    for e in raw {
        let ev = e["ev"].as_str().unwrap_or("");
        match ev {
            "t" => {
                let msg = e["message"].as_str().unwrap_or("");
                let proto = e["protocol"].as_str().unwrap_or("");
                if !proto.starts_with("UDP") {
                    continue;
                }
                let (src, dst) = (
                    SocketAddr::from_str(e["src"].as_str().unwrap_or("")).ok(),
                    SocketAddr::from_str(e["dst"].as_str().unwrap_or("")).ok(),
                );
                match msg {
                    "Send" => {
                        if let (Some(s), Some(d)) = (cur_send.as_mut(), dst) {
                            s["nets"].as_array_mut().unwrap().push(json!([geo.host_of(d.ip()), geo.model_port(d.port())]));
                        }
                    }
                    "Delivered" => {
                        if let (Some(src), Some(dst)) = (src, dst) {
                            let bytes = util::parse_hex_payload(proto).unwrap_or_default();
                            // zero-length: the most recent zero-length send from that source port
                            let z = zl.get(&geo.model_port(src.port())).copied().unwrap_or((0, 0));
                            let id = bytes.first().map(|b| *b as u64).unwrap_or(z.0);
                            let shost = match bytes.get(1) {
                                Some(b) => sid_host.get(*b as usize).copied().unwrap_or(0),
                                None => z.1,
                            };
                            let local = dst.ip().is_loopback() || src.ip() == dst.ip();
                            let (h, dk) = if dst.ip().is_loopback() {
                                (shost, "lo")
                            } else {
                                (geo.host_of(dst.ip()), "host")
                            };
                            out.push(json!({"ev":"tarrive","id":id,"h":h,"p":geo.model_port(dst.port()),"dk":dk,
                                "via": if local {"lo"} else {"net"}}));
                        }
                    }
                    _ => {}
                }
            }
            "send_begin" => {
                if e["len"] == json!(0) {
                    zl.insert(e["p"].as_u64().unwrap() as u16, (e["id"].as_u64().unwrap(), e["h"].as_u64().unwrap() as usize));
                }
                cur_send = Some(json!({"ev":"send","at":e["at"],"id":e["id"],"h":e["h"],"p":e["p"],"sid":e["sid"],"dst":e["dst"],
                    "len":e["len"],"res":"?","nets":[]}));
            }
            "send_end" => {
                if let Some(mut s) = cur_send.take() {
                    s["res"] = e["res"].clone();
                    s["n"] = e["n"].clone();
                    out.push(s);
                }
            }
            "wake" | "step_end" | "manual" => {}
            _ => out.push(e),
        }
    }
    out
}

/// Verdict-level hand-over events (`arrive`) from the public API only.
///  * A copy that travels over a link shows in `Sim::links` between steps; it has been handed to its
///    host in the step after which it is gone, before that host's software runs: the event goes right
///    after that step's marker.  Two copies for one (host, port) leaving in the same step cannot be
///    ordered: both are flagged `amb`.
///  * A copy for the sender's own host (loopback address, own address, and - as a candidate the
///    PropSpec filters against its own targeting rules - broadcast / multicast) is handed over one tick
///    after the send (`turmoil::elapsed()` of the send + tick): the event goes before the first later
///    event of that host with a greater clock value (or the first later step that starts after that
///    instant).  Calls on the same socket at exactly that instant, or a second such copy for the same
///    socket and instant, make it `amb`; it is then reported before each such call and after the last.
fn synthesize(events: Vec<Value>, tick: u64) -> Vec<Value> {
    let n = events.len();
    let mut inserts: Vec<(usize, u8, usize, Value)> = Vec::new();
    // link copies
    let mut prev: BTreeSet<(u64, u64, u64)> = BTreeSet::new();
    let mut last_step: Option<usize> = None;
    for (i, e) in events.iter().enumerate() {
        match e["ev"].as_str().unwrap_or("") {
            "reset" => {
                prev.clear();
                last_step = None;
            }
            "step" => last_step = Some(i),
            "links" => {
                let cur: BTreeSet<(u64, u64, u64)> = e["net"].as_array().map(|v| {
                    v.iter().map(|x| (x[0].as_u64().unwrap_or(0), x[1].as_u64().unwrap_or(0), x[2].as_u64().unwrap_or(0))).collect()
                }).unwrap_or_default();
                let gone: Vec<(u64, u64, u64)> = prev.difference(&cur).copied().collect();
                let pos = last_step.map(|k| k + 1).unwrap_or(i);
                for (k, (id, t, p)) in gone.iter().enumerate() {
                    let amb = gone.iter().filter(|g| g.1 == *t && g.2 == *p).count() > 1;
                    inserts.push((pos, 0, k, json!({"ev":"arrive","id":id,"h":t,"p":p,"dk":"host","amb":amb,"via":"links"})));
                }
                prev = cur;
            }
            _ => {}
        }
    }
    // copies for the sender's own host
    struct Cand { i: usize, id: u64, h: u64, p: u64, dk: &'static str, a: u64 }
    let mut cands: Vec<Cand> = Vec::new();
    for (i, e) in events.iter().enumerate() {
        if e["ev"] == "send" {
            let (h, d) = (e["h"].as_u64().unwrap_or(0), &e["dst"]);
            let dk = match d["k"].as_str().unwrap_or("") {
                "lo" => Some("lo"),
                "host" if d["h"].as_u64() == Some(h) => Some("host"),
                "bcast" | "mc" => Some("host"),
                _ => None,
            };
            if let Some(dk) = dk {
                cands.push(Cand { i, id: e["id"].as_u64().unwrap_or(0), h, p: d["p"].as_u64().unwrap_or(0), dk,
                    a: e["at"].as_u64().unwrap_or(0) + tick });
            }
        }
    }
    for (k, c) in cands.iter().enumerate() {
        let mut pos = n;
        let mut touches: Vec<usize> = Vec::new();
        let mut last_bind: Option<usize> = None;
        for j in (c.i + 1)..n {
            let e = &events[j];
            let ev = e["ev"].as_str().unwrap_or("");
            if ev == "reset" || ev == "quiesce" || (ev == "step" && e["t0"].as_u64().unwrap_or(0) > c.a) {
                pos = j;
                break;
            }
            if e["h"].as_u64() == Some(c.h) {
                if let Some(t) = e["at"].as_u64() {
                    if t > c.a {
                        pos = j;
                        break;
                    }
                    if t == c.a && e["p"].as_u64() == Some(c.p)
                        && matches!(ev, "recv" | "readable" | "connect" | "drop" | "bind" | "join" | "leave")
                        && !(ev == "bind" && e["res"] != "ok")
                    {
                        touches.push(j);
                        if ev == "bind" {
                            last_bind = Some(j);
                        }
                    }
                }
            }
        }
        let twin = cands.iter().enumerate().any(|(k2, c2)| k2 != k && c2.h == c.h && c2.p == c.p && c2.a == c.a);
        let amb = !touches.is_empty() || twin;
        // ambiguous against calls at the same instant: the hand-over may have happened before any of
        // them or after the last: reported (as optional, re-opening) before each of them and once more
        // after the last (a report that finds no socket bound is void, one after a bind finds the new one)
        for tp in touches.iter() {
            inserts.push((*tp, 1, k, json!({"ev":"arrive","id":c.id,"h":c.h,"p":c.p,"dk":c.dk,"amb":true,"via":"local"})));
        }
        let _ = last_bind;
        inserts.push((pos, 1, k, json!({"ev":"arrive","id":c.id,"h":c.h,"p":c.p,"dk":c.dk,"amb":amb,"via":"local"})));
    }
    inserts.sort_by_key(|x| (x.0, x.1, x.2));
    let mut out = Vec::with_capacity(n + inserts.len());
    let mut it = inserts.into_iter().peekable();
    for (i, e) in events.into_iter().enumerate() {
        while it.peek().map(|x| x.0 == i).unwrap_or(false) {
            out.push(it.next().unwrap().3);
        }
        out.push(e);
    }
    for x in it {
        out.push(x.3);
    }
    out
}

// ---------------------------------------------------------------------------
// replay of TLC behaviours

fn cmd_of(a: &Value, idx: usize) -> Option<(usize, Cmd)> {
    let name = a["a"].as_str().unwrap();
    let h = a["h"].as_u64().unwrap_or(0) as usize;
    let p = a["p"].as_u64().unwrap_or(0) as u16;
    let api = (idx % 2) as u8;
    let c = match name {
        "bind" => Cmd::Bind { kind: a["kind"].as_str().unwrap().into(), p },
        "bindeph" => Cmd::Bind { kind: a["kind"].as_str().unwrap().into(), p: 0 },
        "drop" => Cmd::Drop { p },
        "connect" => Cmd::Connect { p, peer: Addr::from_json(&a["peer"]) },
        "join" => Cmd::Join { p, g: a["g"].as_u64().unwrap() as u16 },
        "leave" => Cmd::Leave { p, g: a["g"].as_u64().unwrap() as u16 },
        "setbc" => Cmd::SetBc { p, on: a["on"].as_bool().unwrap() },
        "setml" => Cmd::SetMl { p, on: a["on"].as_bool().unwrap() },
        "send" => Cmd::Send { p, dst: Dst::from_json(&a["dst"]), len: a["len"].as_u64().unwrap() as usize, api },
        "recv" => Cmd::Recv { p, buf: a["buf"].as_u64().unwrap() as usize, api },
        "readable" => Cmd::Readable { p },
        _ => return None,
    };
    Some((h, c))
}

/// Compare one executed command's event with the label TLC predicted.
fn cmd_matches(label: &Value, ev: &Value) -> bool {
    let name = label["a"].as_str().unwrap();
    let evn = ev["ev"].as_str().unwrap_or("");
    match name {
        "bind" | "bindeph" => {
            evn == "bind" && ev["res"] == label["res"] && (label["res"] != "ok" || (ev["p"] == label["p"] && ev["sid"] == label["sid"]))
        }
        "drop" => evn == "drop" && ev["sid"] == label["sid"],
        "connect" => evn == "connect" && ev["sid"] == label["sid"] && ev["ok"] == json!(true),
        "join" | "leave" => evn == name && ev["sid"] == label["sid"] && ev["res"] == label["res"],
        "setbc" | "setml" => evn == name && ev["sid"] == label["sid"] && ev["back"] == label["on"],
        "send" => {
            if !(evn == "send" && ev["sid"] == label["sid"] && ev["id"] == label["id"] && ev["res"] == label["res"]) {
                return false;
            }
            if label["res"] == "ok" && ev["n"] != label["len"] {
                return false;
            }
            let want: BTreeSet<(u64, u64)> = label["nets"].as_array().unwrap().iter()
                .map(|x| (x[0].as_u64().unwrap(), x[1].as_u64().unwrap())).collect();
            let got: Vec<(u64, u64)> = ev["nets"].as_array().unwrap().iter()
                .map(|x| (x[0].as_u64().unwrap(), x[1].as_u64().unwrap())).collect();
            // copies put on links as turmoil's tracing reports them (fidelity only; the public view,
            // Sim::links, is compared after every action)
            got.is_empty() || (got.len() == want.len() && got.into_iter().collect::<BTreeSet<_>>() == want)
        }
        "recv" => evn == "recv" && ev["sid"] == label["sid"] && res_eq(&ev["res"], &label["res"]),
        "readable" => evn == "readable" && ev["sid"] == label["sid"] && ev["res"] == label["res"],
        _ => false,
    }
}

fn res_eq(a: &Value, b: &Value) -> bool {
    if a["k"] != b["k"] {
        return false;
    }
    if a["k"] == "empty" {
        return true;
    }
    a["len"] == b["len"] && a["data"] == b["data"] && a["o"]["k"] == b["o"]["k"] && a["o"]["p"] == b["o"]["p"]
        && (a["o"]["k"] != "host" || a["o"]["h"] == b["o"]["h"])
}

struct ReplayOut {
    divergence: Option<Value>,
    trace: Vec<Value>,
    nontrivial: bool,
}

fn net_of(label: &Value) -> BTreeSet<(u64, usize, u16)> {
    label["net"].as_array().map(|v| {
        v.iter().map(|x| (x[0].as_u64().unwrap(), x[1].as_u64().unwrap() as usize, x[2].as_u64().unwrap() as u16)).collect()
    }).unwrap_or_default()
}

fn tables_match(label: &Value, tv: &Value, n: usize) -> bool {
    for h in 1..=n {
        let want: Vec<u64> = {
            let mut v: Vec<u64> = label["binds"][h - 1].as_array().unwrap().iter().map(|x| x.as_u64().unwrap()).collect();
            v.sort();
            v
        };
        let got: Vec<u64> = tv["udp"][h - 1].as_array().unwrap().iter().map(|x| x.as_u64().unwrap()).collect();
        if want != got || label["mm"][h - 1] != tv["mm"][h - 1] {
            return false;
        }
    }
    true
}

fn replay_one(line: &Value, cfg: &Cfg, full: bool) -> ReplayOut {
    let beh = line["beh"].as_array().unwrap();
    let fin = &line["fin"];
    let mut run = Run::new(cfg);
    let mut divergence: Option<Value> = None;
    let mut all_raw: Vec<Value> = rec::take();
    let n = cfg.n;
    // sockets bound before the behaviour starts (in socket-id order)
    for pb in line["pre"].as_array().unwrap() {
        let (h, p, kind) = (pb["h"].as_u64().unwrap() as usize, pb["p"].as_u64().unwrap() as u16, pb["kind"].as_str().unwrap());
        run.step(vec![(h, vec![Cmd::Bind { kind: kind.into(), p }])]);
        all_raw.extend(rec::take());
    }
    let mut has_fault = false;
    let mut has_data = false;
    let mut i = 0;
    macro_rules! diverge {
        ($v:expr) => {
            if divergence.is_none() {
                divergence = Some($v);
            }
        };
    }
    while i < beh.len() && (full || divergence.is_none()) {
        let a = &beh[i];
        let name = a["a"].as_str().unwrap();
        match name {
            "deliver" => {
                has_fault = true;
                let (id, t, p) = (a["id"].as_u64().unwrap(), a["h"].as_u64().unwrap() as usize, a["p"].as_u64().unwrap() as u16);
                let hit = run.manual(id, t, p);
                run.idle_step();
                let raw = rec::take();
                let pp = { let sh = run.shared.borrow().sid_host.clone(); postprocess(raw.clone(), &run.geo, &sh, &mut run.zl) };
                // (the `Delivered` tracing event is fidelity information only: absent -> not compared)
                let arrived = pp.iter().filter(|e| e["ev"] == "tarrive").collect::<Vec<_>>();
                let ok = hit && (arrived.is_empty() || (arrived.len() == 1 && arrived[0]["id"] == a["id"] && arrived[0]["h"] == a["h"]
                    && arrived[0]["p"] == a["p"] && arrived[0]["dk"] == "host"));
                all_raw.extend(raw);
                if !ok {
                    diverge!(json!({"at":i,"what":"deliver","label":a,"hit":hit,"arrived":arrived}));
                }
                let net = run.links_event();
                let tv = run.tables_event();
                all_raw.extend(rec::take());
                if net != net_of(a) {
                    diverge!(json!({"at":i,"what":"net","label":a,"got":format!("{net:?}")}));
                }
                if !tables_match(a, &tv, n) {
                    diverge!(json!({"at":i,"what":"tables","label":a,"got":tv}));
                }
                i += 1;
            }
            "lodeliver" => {
                // a hand-over without a preceding loopback send of this replay: cannot happen in
                // a Grouped behaviour (handled below with the send group)
                diverge!(json!({"at":i,"what":"unexpected lodeliver","label":a}));
                i += 1;
            }
            _ => {
                // a host command, plus the same-turn follow-ups while loopback copies are pending
                let (h, c) = cmd_of(a, i).expect("host command");
                let mut group = vec![(i, c)];
                let mut pending = a["nlo"].as_u64().unwrap_or(0);
                let mut j = i + 1;
                while pending > 0 && j < beh.len() {
                    match cmd_of(&beh[j], j) {
                        Some((h2, c2)) if h2 == h => {
                            pending += beh[j]["nlo"].as_u64().unwrap_or(0);
                            group.push((j, c2));
                            j += 1;
                        }
                        _ => break,
                    }
                }
                let script: Vec<Cmd> = group.iter().map(|(_, c)| c.clone()).collect();
                run.step(vec![(h, script)]);
                let raw = rec::take();
                let pp = { let sh = run.shared.borrow().sid_host.clone(); postprocess(raw.clone(), &run.geo, &sh, &mut run.zl) };
                all_raw.extend(raw);
                let evs: Vec<&Value> = pp.iter().filter(|e| !matches!(e["ev"].as_str().unwrap_or(""), "step" | "tarrive")).collect();
                if pp.iter().any(|e| e["ev"] == "tarrive") {
                    diverge!(json!({"at":i,"what":"early arrival","events":pp}));
                }
                if evs.len() != group.len() {
                    diverge!(json!({"at":i,"what":"command count","want":group.len(),"events":evs}));
                } else {
                    for (k, (li, _)) in group.iter().enumerate() {
                        let label = &beh[*li];
                        if label["a"] == "recv" && label["res"]["k"] == "data" {
                            has_data = true;
                        }
                        if matches!(label["a"].as_str().unwrap(), "drop" | "leave" | "connect" | "join" | "setbc" | "setml") {
                            has_fault = true;
                        }
                        if !cmd_matches(label, evs[k]) {
                            diverge!(json!({"at":li,"what":"result","label":label,"got":evs[k]}));
                            break;
                        }
                    }
                }
                // hand-over of the loopback batch: one settle step, then compare the order
                let mut k = j;
                if pending > 0 {
                    run.idle_step();
                    let raw = rec::take();
                    let pp = { let sh = run.shared.borrow().sid_host.clone(); postprocess(raw.clone(), &run.geo, &sh, &mut run.zl) };
                    all_raw.extend(raw);
                    let arrived: Vec<&Value> = pp.iter().filter(|e| e["ev"] == "tarrive").collect();
                    let mut want = Vec::new();
                    while k < beh.len() && beh[k]["a"] == "lodeliver" && (want.len() as u64) < pending {
                        want.push(&beh[k]);
                        k += 1;
                    }
                    let same = arrived.len() == want.len()
                        && arrived.iter().zip(want.iter()).all(|(g, w)| {
                            g["id"] == w["id"] && g["h"] == w["h"] && g["p"] == w["p"] && g["dk"] == w["dk"] && g["via"] == "lo"
                        });
                    // (order of the batch: from tracing, fidelity only - not compared when tracing shows nothing)
                    if (!arrived.is_empty() && !same) || want.len() as u64 != pending {
                        diverge!(json!({"at":j,"what":"loopback hand-over","want":want,"got":arrived}));
                    }
                }
                let lastl = &beh[k - 1];
                let net = run.links_event();
                let tv = run.tables_event();
                all_raw.extend(rec::take());
                if net != net_of(lastl) {
                    diverge!(json!({"at":k - 1,"what":"net","label":lastl,"got":format!("{net:?}")}));
                }
                if !tables_match(lastl, &tv, n) {
                    diverge!(json!({"at":k - 1,"what":"tables","label":lastl,"got":tv}));
                }
                i = k;
            }
        }
    }
    if !full && divergence.is_none() {
        // final observation: what every live socket still holds, in order
        for q in fin["queues"].as_array().unwrap() {
            if q["alive"] != json!(true) {
                continue;
            }
            let (h, p) = (q["h"].as_u64().unwrap() as usize, q["p"].as_u64().unwrap() as u16);
            let want: Vec<u64> = q["ids"].as_array().unwrap().iter().map(|x| x.as_u64().unwrap()).collect();
            let script: Vec<Cmd> = (0..=want.len()).map(|k| Cmd::Recv { p, buf: 64, api: (k % 2) as u8 }).collect();
            run.step(vec![(h, script)]);
            let raw = rec::take();
            let pp = { let sh = run.shared.borrow().sid_host.clone(); postprocess(raw.clone(), &run.geo, &sh, &mut run.zl) };
            all_raw.extend(raw);
            // a zero-length datagram shows as 1000 + origin port
            let got: Vec<u64> = pp.iter().filter(|e| e["ev"] == "recv" && e["res"]["k"] == "data")
                .map(|e| e["res"]["data"][0].as_u64().unwrap_or(1000 + e["res"]["o"]["p"].as_u64().unwrap_or(0))).collect();
            if !want.is_empty() {
                has_data = true;
            }
            if got != want {
                diverge!(json!({"at":beh.len(),"what":"final queue","h":h,"p":p,"want":want,"got":got}));
                break;
            }
        }
    }
    if full {
        finalize(&mut run, &mut all_raw);
    }
    let trace = synthesize(postprocess(all_raw, &run.geo, &run.shared.borrow().sid_host, &mut ZLast::new()), cfg.tick);
    ReplayOut { divergence, trace, nontrivial: has_fault && has_data }
}

/// Let everything arrive (deliver every copy still on a link, let pending
/// loopback tasks fire), drain every socket, then state quiescence.
fn finalize(run: &mut Run<'_>, all_raw: &mut Vec<Value>) {
    for _ in 0..64 {
        let l = run.links();
        if l.is_empty() {
            break;
        }
        let (id, t, p) = l[0];
        run.manual(id, t, p);
        run.idle_step();
        run.links_event();
        all_raw.extend(rec::take());
    }
    run.idle_step();
    run.idle_step();
    run.links_event();
    all_raw.extend(rec::take());
    drain_all(run, all_raw);
    rec::emit(json!({"ev":"quiesce"}));
    all_raw.extend(rec::take());
}

fn drain_all(run: &mut Run<'_>, all_raw: &mut Vec<Value>) {
    let n = run.geo.n;
    let maxp = run.geo.nfixed + run.geo.neph;
    for _round in 0..40 {
        let per: Vec<(usize, Vec<Cmd>)> = (1..=n)
            .map(|h| (h, (1..=maxp).flat_map(|p| vec![Cmd::Recv { p, buf: 64, api: 0 }, Cmd::Recv { p, buf: 64, api: 1 }]).collect()))
            .collect();
        run.step(per);
        let raw = run.take();
        let any = raw.iter().any(|e| e["ev"] == "recv" && e["res"]["k"] == "data");
        all_raw.extend(raw);
        if !any {
            break;
        }
    }
}

fn cfg_from_args(args: &[String]) -> Cfg {
    Cfg {
        n: util::arg_u64(args, "n", 2) as usize,
        cap: util::arg_u64(args, "cap", 1) as usize,
        nfixed: util::arg_u64(args, "nfixed", 1) as u16,
        neph: util::arg_u64(args, "neph", 1) as u16,
        v6: util::arg_u64(args, "v6", 0) == 1,
        tick: util::arg_u64(args, "tick", 1),
        gmin: util::arg_u64(args, "gmin", 0),
        gmax: util::arg_u64(args, "gmax", 0),
        hold: true,
        random_order: false,
        seed: util::arg_u64(args, "seed", 1),
    }
}

fn main_replay(args: &[String]) {
    let inp = util::arg(args, "in").expect("in=");
    let out = util::arg(args, "out").expect("out=");
    let traces = util::arg(args, "traces");
    let cfg = cfg_from_args(args);
    let text = std::fs::read_to_string(&inp).expect("read behaviours");
    let mut total = 0u64;
    let mut nontrivial = 0u64;
    let mut divs: Vec<Value> = Vec::new();
    let mut samples: Vec<Value> = Vec::new();
    let mut ndiv = 0u64;
    let force = util::arg_u64(args, "force", 0);
    let mut forced: Vec<Value> = Vec::new();
    rec::with_recorder(|| {
        for (k, line) in text.lines().enumerate() {
            if line.trim().is_empty() {
                continue;
            }
            let beh: Value = serde_json::from_str(line).expect("behaviour json");
            let r = match util::catch(|| replay_one(&beh, &cfg, false)) {
                Ok(r) => r,
                Err(p) => ReplayOut { divergence: Some(json!({"what":"panic","msg":p})), trace: vec![], nontrivial: false },
            };
            rec::take();
            total += 1;
            if r.nontrivial {
                nontrivial += 1;
            }
            // self-test: force=<k> writes the complete (drained) trace of every k-th behaviour
            if force > 0 && (k as u64) % force == 0 {
                if let (Some(dir), Ok(full)) = (&traces, util::catch(|| replay_one(&beh, &cfg, true))) {
                    forced.extend(full.trace);
                    let _ = dir;
                }
                rec::take();
            }
            if samples.len() < 2 && r.nontrivial {
                samples.push(json!({"behaviour": beh["beh"], "trace_excerpt": r.trace.iter().take(14).collect::<Vec<_>>()}));
            }
            if let Some(d) = r.divergence {
                ndiv += 1;
                if divs.len() < 20 {
                    let mut d = d;
                    d["line"] = json!(k);
                    if let Some(dir) = &traces {
                        let p = format!("{dir}/div-{}.ndjson", divs.len());
                        match util::catch(|| replay_one(&beh, &cfg, true)) {
                            Ok(full) => {
                                util::write_ndjson(&p, &full.trace);
                                d["trace"] = json!(p);
                            }
                            Err(msg) => {
                                d["what"] = json!("panic");
                                d["msg"] = json!(msg);
                            }
                        }
                        rec::take();
                        d["behaviour"] = beh.clone();
                    }
                    divs.push(d);
                }
            }
        }
    });
    if force > 0 {
        if let Some(dir) = &traces {
            util::write_ndjson(&format!("{dir}/forced.ndjson"), &forced);
        }
    }
    let summary = json!({"behaviours": total, "nontrivial": nontrivial, "divergent": ndiv, "divergences": divs, "samples": samples});
    std::fs::write(&out, serde_json::to_string(&summary).unwrap()).unwrap();
    println!("replayed={total} nontrivial={nontrivial} divergent={ndiv}");
}

// ---------------------------------------------------------------------------
// random scenarios (code -> spec)

fn main_random(args: &[String]) {
    let seed = util::arg_u64(args, "seed", 1);
    let runs = util::arg_u64(args, "runs", 20);
    let steps = util::arg_u64(args, "steps", 24);
    let out = util::arg(args, "out").expect("out=");
    let base = cfg_from_args(args);
    let mut rng = SmallRng::seed_from_u64(seed ^ 0x6d756470);
    let mut all: Vec<Value> = Vec::new();
    let (mut nsend, mut nrecv, mut nctl) = (0u64, 0u64, 0u64);
    rec::with_recorder(|| {
        for r in 0..runs {
            let cfg = Cfg {
                hold: false,
                random_order: rng.random_bool(0.5),
                seed: seed.wrapping_mul(1000).wrapping_add(r),
                ..cfg_from_args(args)
            };
            let n = cfg.n;
            let maxp = cfg.nfixed + cfg.neph;
            let mut run = Run::new(&cfg);
            let mut raw: Vec<Value> = rec::take();
            let mut sent = 0u64;
            // every other run starts with the multicast fan-out around a local member whose loop option is
            // off: (an earlier joiner,) the sender binds the group port, turns the loop off and joins, another
            // host joins later, then the sender sends to the group - the later joiner must still be served
            if rng.random_bool(0.5) {
                let a = rng.random_range(1..=n);
                let b = a % n + 1;
                let g = rng.random_range(1..=2);
                let mk = |cs: Vec<Cmd>| cs;
                if n >= 3 && rng.random_bool(0.5) {
                    let c = b % n + 1;
                    run.step(vec![(c, mk(vec![Cmd::Bind { kind: "any".into(), p: 1 }, Cmd::Join { p: 1, g }]))]);
                }
                run.step(vec![(a, mk(vec![Cmd::Bind { kind: "any".into(), p: 1 }, Cmd::SetMl { p: 1, on: false }, Cmd::Join { p: 1, g }]))]);
                run.step(vec![(b, mk(vec![Cmd::Bind { kind: "any".into(), p: 1 }, Cmd::Join { p: 1, g }]))]);
                let dst = Dst { k: "mc".into(), h: 0, g, p: 1 };
                run.step(vec![(a, mk(vec![Cmd::Send { p: 1, dst, len: rng.random_range(2..=9), api: rng.random_range(0..2) }]))]);
                sent += 1;
                nsend += 1;
                nctl += 5;
                raw.extend(run.take());
                run.links_event();
                raw.extend(run.take());
            }
            // every other run (capacity >= 2) also starts with a backlog that is only partly consumed:
            // `cap` loopback datagrams one step apart (so each hand-over has its own instant), readable() +
            // one receive, then `cap` more - only what the capacity leaves may be accepted; the rest of the
            // run and the final drain show what the socket really holds
            if cfg.cap >= 2 && rng.random_bool(0.5) {
                let a = rng.random_range(1..=n);
                let pp = cfg.nfixed; // highest fixed port
                let dst = Dst { k: "lo".into(), h: 0, g: 0, p: pp };
                run.step(vec![(a, vec![Cmd::Bind { kind: "any".into(), p: pp }])]);
                run.links_event();
                for _ in 0..cfg.cap {
                    run.step(vec![(a, vec![Cmd::Send { p: pp, dst: dst.clone(), len: rng.random_range(2..=9), api: rng.random_range(0..2) }])]);
                    run.links_event();
                    sent += 1;
                    nsend += 1;
                }
                run.idle_step();
                run.links_event();
                run.idle_step();
                run.links_event();
                let first = if rng.random_bool(0.5) {
                    vec![Cmd::Readable { p: pp }, Cmd::Recv { p: pp, buf: 10, api: 0 }]
                } else {
                    vec![Cmd::Recv { p: pp, buf: 10, api: 1 }]
                };
                run.step(vec![(a, first)]);
                run.links_event();
                for _ in 0..cfg.cap {
                    run.step(vec![(a, vec![Cmd::Send { p: pp, dst: dst.clone(), len: rng.random_range(2..=9), api: rng.random_range(0..2) }])]);
                    run.links_event();
                    sent += 1;
                    nsend += 1;
                }
                run.idle_step();
                run.links_event();
                run.idle_step();
                run.links_event();
                nrecv += 1;
                raw.extend(run.take());
                run.links_event();
                raw.extend(run.take());
            }
            let mut zero_last: BTreeMap<u16, u64> = BTreeMap::new();
            let zwin = cfg.gmax / cfg.tick + 12; // covers a script delayed by blocked receives + the latency
            for s in 0..steps {
                let mut per: Vec<(usize, Vec<Cmd>)> = Vec::new();
                for h in 1..=n {
                    // a host still blocked in an earlier call (recv_from under a timeout) gets nothing new
                    if run.shared.borrow().busy[h] || !run.shared.borrow().cmds[h].is_empty() {
                        continue;
                    }
                    let mut cmds = Vec::new();
                    let mut pend_eph = 0usize;
                    let k = if s < 2 { 2 } else { rng.random_range(0..=3) };
                    for _ in 0..k {
                        let ports: Vec<u16> = run.shared.borrow().ports[h].iter().copied().collect();
                        let roll = rng.random_range(0..100);
                        if ports.is_empty() || (roll < 12 && ports.len() < maxp as usize) {
                            // bind: fixed / ephemeral, wildcard / localhost
                            let kind = if rng.random_bool(0.25) { "lo" } else { "any" };
                            let p = if rng.random_bool(0.3) { 0 } else { rng.random_range(1..=cfg.nfixed) };
                            // never exhaust the ephemeral range (a documented panic, C15's business)
                            if p != 0 || ports.iter().filter(|q| **q > cfg.nfixed).count() + pend_eph + 1 < cfg.neph as usize {
                                if p == 0 {
                                    pend_eph += 1;
                                }
                                cmds.push(Cmd::Bind { kind: kind.into(), p });
                            }
                            nctl += 1;
                            continue;
                        }
                        let p = ports[rng.random_range(0..ports.len())];
                        if roll < 18 {
                            cmds.push(Cmd::Drop { p });
                            nctl += 1;
                        } else if roll < 26 {
                            let g = rng.random_range(1..=2);
                            cmds.push(Cmd::Join { p, g });
                            nctl += 1;
                        } else if roll < 31 {
                            let g = rng.random_range(1..=2);
                            cmds.push(Cmd::Leave { p, g });
                            nctl += 1;
                        } else if roll < 34 {
                            // mostly a peer that exists, so that the filter lets something through
                            let live: Vec<(usize, u16)> = (1..=n)
                                .flat_map(|t| run.shared.borrow().ports[t].iter().map(move |q| (t, *q)).collect::<Vec<_>>())
                                .collect();
                            let (ph, pp) = if !live.is_empty() && rng.random_bool(0.8) {
                                live[rng.random_range(0..live.len())]
                            } else {
                                (rng.random_range(1..=n), rng.random_range(1..=maxp))
                            };
                            let peer = if ph == h && rng.random_bool(0.4) {
                                Addr { k: "lo".into(), h, p: pp }
                            } else {
                                Addr { k: "host".into(), h: ph, p: pp }
                            };
                            cmds.push(Cmd::Connect { p, peer });
                            nctl += 1;
                        } else if roll < 40 && !cfg.v6 {
                            cmds.push(Cmd::SetBc { p, on: rng.random_bool(0.7) });
                            nctl += 1;
                        } else if roll < 45 {
                            cmds.push(Cmd::SetMl { p, on: rng.random_bool(0.5) });
                            nctl += 1;
                        } else if roll < 66 && sent < 240 {
                            let dr = rng.random_range(0..100);
                            // mostly towards ports that are bound somewhere, so that queues fill up
                            let bound: Vec<u16> = run.shared.borrow().ports.iter().flat_map(|s| s.iter().copied()).collect();
                            let dp = if !bound.is_empty() && rng.random_bool(0.8) {
                                bound[rng.random_range(0..bound.len())]
                            } else {
                                rng.random_range(1..=maxp)
                            };
                            let dst = if dr < 40 {
                                Dst { k: "host".into(), h: rng.random_range(1..=n), g: 0, p: dp }
                            } else if dr < 43 {
                                Dst { k: "host".into(), h: 0, g: 0, p: dp }
                            } else if dr < 58 {
                                Dst { k: "lo".into(), h: 0, g: 0, p: dp }
                            } else if dr < 75 && !cfg.v6 {
                                Dst { k: "bcast".into(), h: 0, g: 0, p: dp }
                            } else {
                                Dst { k: "mc".into(), h: 0, g: rng.random_range(1..=2), p: dp }
                            };
                            // bursts make receivers slower than senders
                            let burst = if rng.random_bool(0.25) { rng.random_range(2..=4) } else { 1 };
                            for _ in 0..burst {
                                // zero-length datagrams: at most one per source port in flight (they carry
                                // no id), so a new one only after every earlier one must have arrived
                                let zero_ok = zero_last.get(&p).map(|t| s >= *t + zwin).unwrap_or(true);
                                let len = if zero_ok && rng.random_bool(0.25) {
                                    zero_last.insert(p, s);
                                    0
                                } else {
                                    rng.random_range(2..=9)
                                };
                                cmds.push(Cmd::Send { p, dst: dst.clone(), len, api: rng.random_range(0..2) });
                                sent += 1;
                                nsend += 1;
                            }
                        } else if roll < 94 {
                            let buf = rng.random_range(1..=10);
                            match rng.random_range(0..4) {
                                0 => cmds.push(Cmd::Recv { p, buf, api: 0 }),
                                1 => cmds.push(Cmd::Recv { p, buf, api: 1 }),
                                2 => {
                                    cmds.push(Cmd::Readable { p });
                                    if rng.random_bool(0.7) {
                                        cmds.push(Cmd::Recv { p, buf, api: 0 });
                                    }
                                }
                                _ => cmds.push(Cmd::RecvWait { p, buf, ms: rng.random_range(1..=3 * cfg.tick) }),
                            }
                            nrecv += 1;
                        } else if cfg.tick > 1 {
                            cmds.push(Cmd::Sleep { ms: rng.random_range(1..cfg.tick) });
                        }
                    }
                    // scripts start at alternating in-step offsets so that a loopback hand-over (send + one
                    // tick) rarely coincides with the next script of the same host
                    if cfg.tick >= 2 && s % 2 == 0 && !cmds.is_empty() {
                        cmds.insert(0, Cmd::Sleep { ms: 1 });
                    }
                    per.push((h, cmds));
                }
                run.step(per);
                raw.extend(run.take());
                run.links_event();
                run.tables_event();
                raw.extend(run.take());
            }
            // quiet steps: every latency elapses, every loopback task fires, blocked receivers time out
            for _ in 0..((cfg.gmax + 4 * cfg.tick) / cfg.tick + 4) {
                run.idle_step();
                raw.extend(run.take());
                run.links_event();
                raw.extend(run.take());
            }
            drain_all(&mut run, &mut raw);
            let left = run.links_event();
            raw.extend(run.take());
            if left.is_empty() {
                rec::emit(json!({"ev":"quiesce"}));
                raw.extend(run.take());
            }
            all.extend(synthesize(postprocess(raw, &run.geo, &run.shared.borrow().sid_host, &mut ZLast::new()), cfg.tick));
        }
    });
    util::write_ndjson(&out, &all);
    let _ = base;
    println!("runs={runs} events={} sends={nsend} recvs={nrecv} ctl={nctl}", all.len());
}

fn main() {
    let args: Vec<String> = std::env::args().skip(1).collect();
    match args.first().map(|s| s.as_str()) {
        Some("replay") => main_replay(&args[1..]),
        Some("random") => main_random(&args[1..]),
        _ => {
            eprintln!("usage: msgudp replay|random key=value...");
            std::process::exit(2);
        }
    }
}
