//! Driver for turmoil-net's rule chain and fixture scheduler (specs/rules): C19.
//!
//! Modes
//!   replay mode=<prim|fix> in=<behaviours.ndjson> out=<summary.json> traces=<dir> nh=<hosts> nc=<classes> tcpcls=<class|0>
//!       every line is one TLC-generated behaviour of RulesGen.  The control actions
//!       (install / enter / dropguard / forget / emit / tick) are executed against the real
//!       code - `prim`: the bare primitives `Net` / `EnterGuard` with the harness as the
//!       scheduler, `fix`: `fixture::ClientServer` with the client future running the script -
//!       and the observations (which rule closures logged which packet, the verdict, arrival
//!       socket / order / instant) are compared with what TLC predicted.  Divergent behaviours
//!       get their recorded event trace written to <traces>/div-<k>.ndjson for the PropSpec.
//!   random mode=<prim|fix|lo> seed=<s> runs=<n> out=<trace.ndjson>
//!       seeded random chains and mixed UDP / TCP traffic; one concatenated event trace
//!       (runs separated by `reset`).
//!
//! Time unit everywhere: half a millisecond (fixture tick = 2 units).
//! Verdicts as integers: -1 Pass, -2 Drop, d >= 0 Deliver(d units), -3 not observable.
use rand::rngs::SmallRng;
use rand::{Rng, SeedableRng};
use serde_json::{json, Value};
use std::cell::{Cell, RefCell};
use std::collections::{BTreeMap, HashMap, VecDeque};
use std::future::Future;
use std::net::{IpAddr, Ipv4Addr, SocketAddr};
use std::pin::Pin;
use std::rc::Rc;
use std::task::{Context, Poll, Waker};
use std::time::Duration;
use tokio::io::{AsyncReadExt, AsyncWriteExt};
use tokio::time::Instant;
use turmoil_net::fixture::{self, ClientServer};
use turmoil_net::shim::tokio::net::{TcpListener, TcpStream, UdpSocket};
use turmoil_net::{EnterGuard, HostId, KernelConfig, Net, Packet, RuleGuard, Transport, Verdict};
use vh::util;

const UPORT: u16 = 9000; // every host's receiving UDP socket
const TPORT: u16 = 7000; // TCP echo / connect target
const PASS: i64 = -1;
const DROP: i64 = -2;
const UNK: i64 = -3;

// ---------------------------------------------------------------------------
// shared recording

/// Everything is appended to one vector in real execution order: driver events and the
/// invocations of the rule closures.
#[derive(Clone, Debug)]
enum Raw {
    Ev(Value),
    Hit { rule: u64, key: String, tag: u64, cls: u64, sock: u64, lo: bool, at: u64 },
}
type Log = Rc<RefCell<Vec<Raw>>>;

fn ev(log: &Log, v: Value) {
    log.borrow_mut().push(Raw::Ev(v));
}

struct Topo {
    ip2h: HashMap<IpAddr, usize>,
    tcpcls: u64,
}

fn host_ip(h: usize) -> IpAddr {
    IpAddr::V4(Ipv4Addr::new(10, 0, 0, h as u8))
}
/// second address of host 2 (the host that owns two addresses in `prim` mode)
fn host2_second() -> IpAddr {
    IpAddr::V4(Ipv4Addr::new(10, 0, 1, 2))
}

fn topo(nh: usize, tcpcls: u64) -> Rc<Topo> {
    let mut ip2h = HashMap::new();
    for h in 1..=nh {
        ip2h.insert(host_ip(h), h);
    }
    ip2h.insert(host2_second(), 2);
    Rc::new(Topo { ip2h, tcpcls })
}

/// What a rule closure can see of a packet: identity key, tag, class, addressed receiving
/// socket (0 = none tracked), host-local destination (loopback or own address of the sender).
fn classify(p: &Packet, t: &Topo) -> (String, u64, u64, u64, bool) {
    // host-local traffic: a loopback destination, or one of the sending host's own addresses
    // (such a packet never leaves its host; `Kernel::egress` folds it back inline)
    let lo = p.dst.is_loopback()
        || matches!((t.ip2h.get(&p.src), t.ip2h.get(&p.dst)), (Some(a), Some(b)) if a == b);
    match &p.payload {
        Transport::Udp(d) => {
            let b = &d.payload;
            let (cls, tag) = if b.len() >= 3 {
                (b[0] as u64, ((b[1] as u64) << 8) | b[2] as u64)
            } else {
                (0, 0)
            };
            let sock = if d.dst_port == UPORT {
                let owner = if lo { t.ip2h.get(&p.src) } else { t.ip2h.get(&p.dst) };
                owner.copied().unwrap_or(0) as u64
            } else {
                0
            };
            (format!("u{tag}"), tag, cls, sock, lo)
        }
        Transport::Tcp(s) => (
            format!(
                "t{}>{}:{}:{}:{}:{}{}{}{}:{}",
                p.src, p.dst, s.src_port, s.dst_port, s.seq, s.flags.syn as u8, s.flags.ack as u8,
                s.flags.fin as u8, s.flags.rst as u8, s.payload.len()
            ) + &format!(":{}", s.ack),
            0,
            t.tcpcls,
            0,
            lo,
        ),
    }
}

fn verdict_of(v: i64) -> Verdict {
    match v {
        PASS => Verdict::Pass,
        DROP => Verdict::Drop,
        d => Verdict::Deliver(Duration::from_micros(500 * d as u64)),
    }
}
fn verdict_code(v: Verdict) -> i64 {
    match v {
        Verdict::Pass => PASS,
        Verdict::Drop => DROP,
        Verdict::Deliver(d) => (d.as_micros() / 500) as i64,
    }
}
fn units_since(start: Instant) -> u64 {
    ((Instant::now() - start).as_micros() / 500) as u64
}

/// Table-driven rule closure that logs every invocation.
fn make_rule(
    rule: u64,
    table: Vec<i64>,
    log: Log,
    t: Rc<Topo>,
    start: Option<Instant>,
) -> impl FnMut(&Packet) -> Verdict + 'static {
    move |p: &Packet| {
        let (key, tag, cls, sock, lo) = classify(p, &t);
        let at = start.map(units_since).unwrap_or(0);
        log.borrow_mut().push(Raw::Hit { rule, key, tag, cls, sock, lo, at });
        if cls >= 1 && (cls as usize) <= table.len() {
            verdict_of(table[cls as usize - 1])
        } else {
            Verdict::Pass
        }
    }
}

/// `RuleId(n)` -> n  (RuleGuard::id() is public, its Debug form shows the number)
fn rid_of(g: &RuleGuard) -> u64 {
    let s = format!("{:?}", g.id());
    s.trim_start_matches("RuleId(").trim_end_matches(')').parse().unwrap_or(0)
}

fn payload(cls: u64, tag: u64) -> [u8; 3] {
    [cls as u8, (tag >> 8) as u8, (tag & 0xff) as u8]
}

fn poll_once<F: Future + ?Sized>(f: Pin<&mut F>) -> Poll<F::Output> {
    let mut cx = Context::from_waker(Waker::noop());
    f.poll(&mut cx)
}

// ---------------------------------------------------------------------------
// primitives runner: the harness owns Net / EnterGuard and is the scheduler

struct Prim {
    nh: usize,
    log: Log,
    topo: Rc<Topo>,
    net: Option<Net>,
    hids: Vec<HostId>,
    guard: Option<EnterGuard>,
    socks: Vec<Option<UdpSocket>>, // index = host (1-based)
    guards: BTreeMap<u64, RuleGuard>,
    next_rule: u64,
    conns: Vec<(usize, Pin<Box<dyn Future<Output = std::io::Result<TcpStream>>>>)>,
    syn_tags: Vec<VecDeque<u64>>, // per host: tags of the SYNs queued and not yet seen leaving
    own_alt: bool,
}

impl Prim {
    fn new(nh: usize, tcpcls: u64) -> Prim {
        let log: Log = Rc::new(RefCell::new(Vec::new()));
        let mut net = Net::with_config(KernelConfig::default().retx_threshold(1_000_000));
        let mut hids = vec![];
        for h in 1..=nh {
            let id = if h == 2 {
                net.add_host([host_ip(2), host2_second()])
            } else {
                net.add_host(host_ip(h))
            };
            hids.push(id);
        }
        ev(&log, json!({"ev":"reset","fx":false}));
        Prim {
            nh,
            log,
            topo: topo(nh, tcpcls),
            net: Some(net),
            hids,
            guard: None,
            socks: (0..=nh).map(|_| None).collect(),
            guards: BTreeMap::new(),
            next_rule: 1,
            conns: vec![],
            syn_tags: (0..=nh).map(|_| VecDeque::new()).collect(),
            own_alt: false,
        }
    }

    fn set_current(&self, h: usize) {
        self.guard.as_ref().unwrap().set_current(self.hids[h - 1]);
    }

    fn install(&mut self, kind: &str, table: Vec<i64>) -> u64 {
        let id = self.next_rule;
        self.next_rule += 1;
        let r = make_rule(id, table.clone(), self.log.clone(), self.topo.clone(), None);
        let rid = match kind {
            "permanent" => {
                self.net.as_mut().expect("permanent rules are installed before enter").rule(r);
                0
            }
            "enter_guard" => {
                let g = self.guard.as_ref().expect("entered").rule(r);
                let rid = rid_of(&g);
                self.guards.insert(id, g);
                rid
            }
            "free" => {
                let g = turmoil_net::rule(r);
                let rid = rid_of(&g);
                self.guards.insert(id, g);
                rid
            }
            k => panic!("unknown installer {k}"),
        };
        ev(&self.log, json!({"ev":"install","kind":kind,"id":id,"table":table,"rid":rid}));
        id
    }

    fn enter(&mut self) {
        let g = self.net.take().expect("not yet entered").enter();
        self.guard = Some(g);
        for h in 1..=self.nh {
            self.set_current(h);
            let mut f = Box::pin(UdpSocket::bind((IpAddr::V4(Ipv4Addr::UNSPECIFIED), UPORT)));
            match poll_once(f.as_mut()) {
                Poll::Ready(Ok(s)) => self.socks[h] = Some(s),
                other => panic!("bind not ready: {:?}", other.map(|r| r.map(|_| ()))),
            }
        }
        ev(&self.log, json!({"ev":"enter"}));
    }

    fn dropguard(&mut self, id: u64) {
        let g = self.guards.remove(&id).expect("live guard");
        drop(g);
        ev(&self.log, json!({"ev":"dropguard","id":id}));
    }

    fn forget(&mut self, id: u64) {
        let g = self.guards.remove(&id).expect("live guard");
        g.forget();
        ev(&self.log, json!({"ev":"forget","id":id}));
    }

    /// host h queues one packet: a tagged datagram to receiving socket `sock`, or (sock = 0)
    /// a TCP SYN towards the next host.
    fn emit(&mut self, tag: u64, h: usize, cls: u64, sock: usize, via: &str) {
        self.set_current(h);
        if sock == 0 {
            let peer = h % self.nh + 1;
            let mut f: Pin<Box<dyn Future<Output = std::io::Result<TcpStream>>>> =
                Box::pin(TcpStream::connect(SocketAddr::new(host_ip(peer), TPORT)));
            let _ = poll_once(f.as_mut());
            self.conns.push((h, f));
            self.syn_tags[h].push_back(tag);
        } else {
            let dst = if via == "lo" {
                IpAddr::V4(Ipv4Addr::LOCALHOST)
            } else if sock == 2 && h == 2 {
                // own-address traffic of the two-address host: alternate between its addresses
                self.own_alt = !self.own_alt;
                if self.own_alt { host2_second() } else { host_ip(2) }
            } else {
                host_ip(sock)
            };
            let s = self.socks[h].as_ref().expect("socket bound at enter");
            s.try_send_to(&payload(cls, tag), SocketAddr::new(dst, UPORT)).expect("try_send_to");
        }
        ev(&self.log, json!({"ev":"send","tag":tag,"h":h,"cls":cls,"sock":sock,"via":via}));
    }

    /// One scheduler round driven by the harness: egress_all, evaluate every packet,
    /// deliver unless dropped (TCP SYNs are never delivered: nobody listens, and the
    /// answering RST would be traffic the behaviour does not contain), then every
    /// receiving socket is drained.
    fn round(&mut self) {
        let g = self.guard.as_ref().expect("entered");
        let mut out = Vec::new();
        g.egress_all(&mut out);
        ev(&self.log, json!({"ev":"tick","now":0}));
        for pkt in out {
            let before = self.log.borrow().len();
            let v = g.evaluate(&pkt);
            let hits: Vec<Raw> = self.log.borrow_mut().drain(before..).collect();
            let consulted: Vec<u64> = hits
                .iter()
                .filter_map(|r| if let Raw::Hit { rule, .. } = r { Some(*rule) } else { None })
                .collect();
            let (_key, mut tag, cls, sock, lo) = classify(&pkt, &self.topo);
            if let Transport::Tcp(s) = &pkt.payload {
                if s.flags.syn && !s.flags.ack {
                    if let Some(&h) = self.topo.ip2h.get(&pkt.src) {
                        tag = self.syn_tags[h].pop_front().unwrap_or(0);
                    }
                }
            }
            ev(
                &self.log,
                json!({"ev":"eval","tag":tag,"cls":cls,"decision":verdict_code(v),"consulted":consulted,
                       "at":0,"sock":sock,"lo":lo}),
            );
            let is_udp = matches!(pkt.payload, Transport::Udp(_));
            if v != Verdict::Drop && is_udp {
                g.deliver(pkt);
            }
        }
        ev(&self.log, json!({"ev":"tick_end"}));
        self.drain();
    }

    fn drain(&mut self) {
        for s in 1..=self.nh {
            self.set_current(s);
            let sock = self.socks[s].as_ref().expect("bound");
            let mut buf = [0u8; 16];
            while let Ok((n, _from)) = sock.try_recv_from(&mut buf) {
                let tag = if n >= 3 { ((buf[1] as u64) << 8) | buf[2] as u64 } else { 0 };
                ev(&self.log, json!({"ev":"arrive","tag":tag,"sock":s,"at":0}));
            }
        }
    }

    fn finish(mut self) -> Vec<Value> {
        // sockets and pending connects call into the Net when dropped: they go first
        if self.guard.is_some() {
            for h in 1..=self.nh {
                self.set_current(h);
                self.socks[h] = None;
            }
            for (h, f) in std::mem::take(&mut self.conns) {
                self.set_current(h);
                drop(f);
            }
            self.set_current(1);
        }
        self.guards.clear();
        self.guard = None;
        let raw = std::mem::take(&mut *self.log.borrow_mut());
        raw.into_iter()
            .filter_map(|r| if let Raw::Ev(v) = r { Some(v) } else { None })
            .collect()
    }
}

// ---------------------------------------------------------------------------
// fixture runner: fixture::ClientServer, the client future runs a script

#[derive(Clone, Debug)]
enum Op {
    Install { table: Vec<i64> },
    DropGuard { id: u64 },
    Forget { id: u64 },
    /// `copies` byte-identical datagrams sent back to back (UDP carries no sequence number: same
    /// socket, same payload, same peer).  Every copy has its own spec-level tag (see post_fixture).
    Send { cls: u64, sock: usize, via: String, copies: u64 },
}

/// offset for occurrences of a wire tag beyond the number of copies that were sent
const DUP_STRIDE: u64 = 20000;

#[derive(Clone, Default)]
struct FixPlan {
    nh: usize,           // servers 1..nh-1, client = nh
    nc: usize,           // classes (width of the prelude table)
    tcpcls: u64,
    iters: Vec<Vec<Op>>, // client ops per fixture iteration
    idle: usize,         // quiet iterations at the end
    tcp: bool,           // client opens a TCP connection to server 1's echo service
    echo_cls: u64,       // servers echo datagrams of this class to the client's socket (0 = off)
    retx_threshold: u32,
}

struct Ctx {
    log: Log,
    topo: Rc<Topo>,
    next_tag: Cell<u64>,
}

fn tag_of(buf: &[u8], n: usize) -> (u64, u64) {
    if n >= 3 {
        (buf[0] as u64, ((buf[1] as u64) << 8) | buf[2] as u64)
    } else {
        (0, 0)
    }
}

async fn server_task(s: usize, client: usize, ctx: Rc<Ctx>, echo_cls: u64, tcp: bool) {
    let start = Instant::now();
    let sock = UdpSocket::bind((IpAddr::V4(Ipv4Addr::UNSPECIFIED), UPORT)).await.unwrap();
    let udp = async {
        let mut buf = [0u8; 16];
        loop {
            let Ok((n, _from)) = sock.recv_from(&mut buf).await else { break };
            let (cls, tag) = tag_of(&buf, n);
            let at = units_since(start);
            ev(&ctx.log, json!({"ev":"arrive","tag":tag,"sock":s,"at":at}));
            if echo_cls != 0 && cls == echo_cls {
                let t2 = ctx.next_tag.get();
                ctx.next_tag.set(t2 + 1);
                let dst = SocketAddr::new(host_ip(client), UPORT);
                if sock.try_send_to(&payload(1, t2), dst).is_ok() {
                    ev(&ctx.log, json!({"ev":"send","tag":t2,"h":s,"cls":1,"sock":client,"via":"ip","at":at}));
                }
            }
        }
    };
    let tcp_echo = async {
        if !tcp {
            std::future::pending::<()>().await;
        }
        let l = TcpListener::bind((IpAddr::V4(Ipv4Addr::UNSPECIFIED), TPORT)).await.unwrap();
        loop {
            let Ok((mut st, _)) = l.accept().await else { break };
            let mut buf = [0u8; 32];
            loop {
                match st.read(&mut buf).await {
                    Ok(0) | Err(_) => break,
                    Ok(n) => {
                        if st.write_all(&buf[..n]).await.is_err() {
                            break;
                        }
                    }
                }
            }
        }
    };
    tokio::join!(udp, tcp_echo);
}

fn drain_sock(sock: &UdpSocket, s: usize, ctx: &Ctx, start: Instant) {
    let mut buf = [0u8; 16];
    while let Ok((n, _)) = sock.try_recv_from(&mut buf) {
        let (_cls, tag) = tag_of(&buf, n);
        ev(&ctx.log, json!({"ev":"arrive","tag":tag,"sock":s,"at":units_since(start)}));
    }
}

/// The client's script.  Returns the instant at which it finished.
async fn client_task(plan: FixPlan, ctx: Rc<Ctx>, lo_only: bool) -> u64 {
    let start = Instant::now();
    let me = plan.nh;
    let sock = UdpSocket::bind((IpAddr::V4(Ipv4Addr::UNSPECIFIED), UPORT)).await.unwrap();
    let mut next_rule = 1u64;
    let mut guards: BTreeMap<u64, RuleGuard> = BTreeMap::new();
    // the drivers' logging rule: first in the chain, all-Pass, forgotten
    {
        let table = vec![PASS; plan.nc];
        let g = turmoil_net::rule(make_rule(1, table.clone(), ctx.log.clone(), ctx.topo.clone(), Some(start)));
        ev(&ctx.log, json!({"ev":"install","kind":"free","id":1,"table":table,"rid":rid_of(&g),"at":0}));
        g.forget();
        ev(&ctx.log, json!({"ev":"forget","id":1,"at":0}));
        next_rule += 1;
    }
    let script = async {
        for ops in plan.iters.iter() {
            for op in ops {
                let at = units_since(start);
                match op {
                    Op::Install { table } => {
                        let id = next_rule;
                        next_rule += 1;
                        let g = turmoil_net::rule(make_rule(id, table.clone(), ctx.log.clone(), ctx.topo.clone(), Some(start)));
                        ev(&ctx.log, json!({"ev":"install","kind":"free","id":id,"table":table,"rid":rid_of(&g),"at":at}));
                        guards.insert(id, g);
                    }
                    Op::DropGuard { id } => {
                        if let Some(g) = guards.remove(id) {
                            drop(g);
                            ev(&ctx.log, json!({"ev":"dropguard","id":id,"at":at}));
                        }
                    }
                    Op::Forget { id } => {
                        if let Some(g) = guards.remove(id) {
                            g.forget();
                            ev(&ctx.log, json!({"ev":"forget","id":id,"at":at}));
                        }
                    }
                    Op::Send { cls, sock: s, via, copies } => {
                        // every copy gets its own (sequential) spec-level tag; the bytes on the wire
                        // carry the tag of the first copy, so the copies are byte-identical
                        let wire = ctx.next_tag.get();
                        ctx.next_tag.set(wire + *copies);
                        let dst = if via == "lo" || lo_only { IpAddr::V4(Ipv4Addr::LOCALHOST) } else { host_ip(*s) };
                        for k in 0..*copies {
                            sock.try_send_to(&payload(*cls, wire), SocketAddr::new(dst, UPORT)).expect("try_send_to");
                            ev(&ctx.log, json!({"ev":"send","tag":wire + k,"wire":wire,"h":me,"cls":cls,"sock":s,"via":via,"at":at}));
                        }
                    }
                }
            }
            tokio::time::sleep(Duration::from_millis(1)).await;
        }
    };
    let tcp = async {
        if !plan.tcp {
            return;
        }
        let _ = tokio::time::timeout(Duration::from_millis(400), async {
            tokio::time::sleep(Duration::from_millis(1)).await;
            let Ok(mut c) = TcpStream::connect(SocketAddr::new(host_ip(1), TPORT)).await else { return };
            for round in 0..2u8 {
                if c.write_all(&[round; 6]).await.is_err() {
                    return;
                }
                let mut buf = [0u8; 6];
                if c.read_exact(&mut buf).await.is_err() {
                    return;
                }
            }
            let _ = c.shutdown().await;
        })
        .await;
    };
    // the client's own receiver polls for the whole life of the client
    let rx = async {
        let mut buf = [0u8; 16];
        loop {
            let Ok((n, _)) = sock.recv_from(&mut buf).await else { break };
            let (_cls, tag) = tag_of(&buf, n);
            ev(&ctx.log, json!({"ev":"arrive","tag":tag,"sock":me,"at":units_since(start)}));
        }
    };
    let main_part = async {
        tokio::join!(script, tcp);
        for _ in 0..plan.idle {
            tokio::time::sleep(Duration::from_millis(1)).await;
        }
    };
    tokio::select! {
        biased;
        _ = rx => {},
        _ = main_part => {},
    }
    drain_sock(&sock, me, &ctx, start);
    let fin = units_since(start);
    // guards still alive are leaked rather than dropped: no unscripted uninstall
    for (_, g) in std::mem::take(&mut guards) {
        g.forget();
    }
    fin
}

fn run_fixture(plan: &FixPlan) -> Vec<Value> {
    let log: Log = Rc::new(RefCell::new(Vec::new()));
    let ctx = Rc::new(Ctx { log: log.clone(), topo: topo(plan.nh, plan.tcpcls), next_tag: Cell::new(1) });
    ev(&log, json!({"ev":"reset","fx":true,"at":0}));
    let cfg = KernelConfig::default().retx_threshold(plan.retx_threshold);
    let mut cs = ClientServer::with_config(cfg);
    for s in 1..plan.nh {
        cs = cs.server(host_ip(s), server_task(s, plan.nh, ctx.clone(), plan.echo_cls, plan.tcp && s == 1));
    }
    let fin = cs.run(host_ip(plan.nh), client_task(plan.clone(), ctx.clone(), false));
    let raw = std::mem::take(&mut *log.borrow_mut());
    post_fixture(raw, fin)
}

/// fixture::lo: one host, loopback only; everything the script sends goes to 127.0.0.1.
fn run_lo(plan: &FixPlan) -> Vec<Value> {
    let log: Log = Rc::new(RefCell::new(Vec::new()));
    let mut p = plan.clone();
    p.nh = 1;
    p.tcp = false;
    let ctx = Rc::new(Ctx { log: log.clone(), topo: Rc::new(Topo { ip2h: HashMap::new(), tcpcls: plan.tcpcls }), next_tag: Cell::new(1) });
    ev(&log, json!({"ev":"reset","fx":true,"at":0}));
    let fin = fixture::lo(client_task(p, ctx.clone(), true));
    let raw = std::mem::take(&mut *log.borrow_mut());
    post_fixture(raw, fin)
}

/// Turn the raw recording of a fixture run into model-level events.  Purely syntactic:
/// consecutive closure invocations for the same packet with increasing rule numbers are
/// one `eval`; `tick` / `tick_end` are placed from the recorded instants (every event
/// recorded at instant t happened after the scheduler tick that made the clock t).
fn post_fixture(raw: Vec<Raw>, fin: u64) -> Vec<Value> {
    // 1. group hits
    let mut evs: Vec<Value> = Vec::new();
    let mut cur: Option<(String, u64, Value)> = None; // key, last rule, eval under construction
    for r in raw {
        match r {
            Raw::Hit { rule, key, tag, cls, sock, lo, at } => {
                let joins = matches!(&cur, Some((k, last, _)) if *k == key && rule > *last);
                if joins {
                    let c = cur.as_mut().unwrap();
                    c.1 = rule;
                    c.2["consulted"].as_array_mut().unwrap().push(json!(rule));
                } else {
                    if let Some((_, _, e)) = cur.take() {
                        evs.push(e);
                    }
                    cur = Some((key, rule, json!({"ev":"eval","tag":tag,"cls":cls,"decision":UNK,
                        "consulted":[rule],"at":at,"sock":sock,"lo":lo})));
                }
            }
            Raw::Ev(v) => {
                if let Some((_, _, e)) = cur.take() {
                    evs.push(e);
                }
                evs.push(v);
            }
        }
    }
    if let Some((_, _, e)) = cur.take() {
        evs.push(e);
    }
    evs.push(json!({"ev":"end","now":fin,"at":fin}));
    // 1b. byte-identical copies of a datagram carry the same wire tag (that of the first copy): the
    // k-th time the rules see it and the k-th time it arrives belong to copy k (the copies are sent
    // back to back under one chain, so they share verdict, egress tick and deadline and any matching
    // is equivalent)
    let mut copies_of: HashMap<u64, Vec<u64>> = HashMap::new();
    for e in evs.iter() {
        if e["ev"] == "send" {
            if let (Some(w), Some(t)) = (e["wire"].as_u64(), e["tag"].as_u64()) {
                copies_of.entry(w).or_default().push(t);
            }
        }
    }
    let mut seen_eval: HashMap<u64, usize> = HashMap::new();
    let mut seen_arr: HashMap<u64, usize> = HashMap::new();
    for e in evs.iter_mut() {
        let kind = e["ev"].as_str().unwrap_or("").to_string();
        let wire = e["tag"].as_u64().unwrap_or(0);
        let Some(list) = copies_of.get(&wire) else { continue };
        if list.len() < 2 {
            continue;
        }
        let ctr = match kind.as_str() {
            "eval" => &mut seen_eval,
            "arrive" => &mut seen_arr,
            _ => continue,
        };
        let k = ctr.entry(wire).or_insert(0);
        // more occurrences than copies: an id nobody sent (the specs will say so)
        let tag = list.get(*k).copied().unwrap_or(wire + DUP_STRIDE * (*k as u64));
        e["tag"] = json!(tag);
        e["dup"] = json!(*k > 0);
        *k += 1;
    }
    // 2. place ticks
    let mut out = Vec::new();
    let mut ticks = 0u64; // scheduler ticks placed so far
    let mut in_egress = false;
    for e in evs {
        let at = e["at"].as_u64().unwrap_or(0);
        let t = at / 2;
        if e["ev"] == "eval" {
            if in_egress && ticks < t {
                out.push(json!({"ev":"tick_end"}));
                in_egress = false;
            }
            while ticks + 1 < t {
                ticks += 1;
                out.push(json!({"ev":"tick","now":ticks * 2}));
                out.push(json!({"ev":"tick_end"}));
            }
            if !in_egress && ticks < t {
                ticks += 1;
                out.push(json!({"ev":"tick","now":ticks * 2}));
                in_egress = true;
            }
        } else {
            if in_egress {
                out.push(json!({"ev":"tick_end"}));
                in_egress = false;
            }
            while ticks < t {
                ticks += 1;
                out.push(json!({"ev":"tick","now":ticks * 2}));
                out.push(json!({"ev":"tick_end"}));
            }
        }
        out.push(e);
    }
    out
}

// ---------------------------------------------------------------------------
// replay of TLC behaviours

fn table_of(v: &Value) -> Vec<i64> {
    v.as_array().unwrap().iter().map(|x| x.as_i64().unwrap()).collect()
}

/// What TLC predicts the driver observes, as model-level events.
fn predicted(beh: &[Value]) -> Vec<Value> {
    beh.iter()
        .map(|a| match a["a"].as_str().unwrap() {
            "install" => json!({"ev":"install","kind":a["kind"],"id":a["id"],"table":a["table"]}),
            "enter" => json!({"ev":"enter"}),
            "dropguard" => json!({"ev":"dropguard","id":a["id"]}),
            "forget" => json!({"ev":"forget","id":a["id"]}),
            "emit" => json!({"ev":"send","tag":a["tag"],"h":a["h"],"cls":a["cls"],"sock":a["sock"],"via":a["via"]}),
            "tick" => json!({"ev":"tick","now":a["now"]}),
            "eval" => json!({"ev":"eval","tag":a["tag"],"cls":a["cls"],"decision":a["decision"],
                             "consulted":a["consulted"],"at":a["at"],"sock":a["sock"]}),
            "tick_end" => json!({"ev":"tick_end"}),
            "recv" => json!({"ev":"arrive","tag":a["tag"],"sock":a["sock"],"at":a["at"]}),
            "end" => json!({"ev":"end","now":a["now"]}),
            other => panic!("unexpected action {other}"),
        })
        .collect()
}

/// Receivers and the client are independent tasks: within one application phase the
/// arrivals are compared per socket (listed first, by socket), everything else in order.
fn canonical(evs: &[Value]) -> Vec<Value> {
    let mut out = Vec::new();
    let mut arr: Vec<Value> = Vec::new();
    let mut rest: Vec<Value> = Vec::new();
    let flush = |out: &mut Vec<Value>, arr: &mut Vec<Value>, rest: &mut Vec<Value>| {
        arr.sort_by_key(|e| e["sock"].as_u64().unwrap_or(0)); // stable
        out.append(arr);
        out.append(rest);
    };
    let mut in_egress = false;
    for e in evs {
        let name = e["ev"].as_str().unwrap_or("");
        if name == "tick" {
            flush(&mut out, &mut arr, &mut rest);
            in_egress = true;
            out.push(e.clone());
        } else if name == "tick_end" {
            in_egress = false;
            out.push(e.clone());
        } else if in_egress {
            out.push(e.clone());
        } else if name == "arrive" {
            arr.push(e.clone());
        } else {
            rest.push(e.clone());
        }
    }
    flush(&mut out, &mut arr, &mut rest);
    out
}

const FIELDS: &[(&str, &[&str])] = &[
    ("install", &["kind", "id", "table"]),
    ("enter", &[]),
    ("dropguard", &["id"]),
    ("forget", &["id"]),
    ("send", &["tag", "h", "cls", "sock", "via"]),
    ("tick", &["now"]),
    ("eval", &["tag", "cls", "consulted", "at", "sock"]),
    ("tick_end", &[]),
    ("arrive", &["tag", "sock", "at"]),
    ("end", &["now"]),
];

fn compare(pred: &[Value], obs: &[Value]) -> Option<Value> {
    for i in 0..pred.len().max(obs.len()) {
        let (p, o) = (pred.get(i), obs.get(i));
        let bad = match (p, o) {
            (Some(p), Some(o)) => {
                if p["ev"] != o["ev"] {
                    true
                } else {
                    let name = p["ev"].as_str().unwrap();
                    let fields = FIELDS.iter().find(|f| f.0 == name).map(|f| f.1).unwrap_or(&[]);
                    fields.iter().any(|f| p[*f] != o[*f])
                        || (name == "eval"
                            && (o["lo"] == json!(true)
                                || (o["decision"] != json!(UNK) && o["decision"] != p["decision"])))
                }
            }
            _ => true,
        };
        if bad {
            // signature of the divergence: which kind of event, which fields differ
            let sig = match (p, o) {
                (Some(p), Some(o)) if p["ev"] == o["ev"] => {
                    let name = p["ev"].as_str().unwrap();
                    let fields = FIELDS.iter().find(|f| f.0 == name).map(|f| f.1).unwrap_or(&[]);
                    let diff: Vec<&str> = fields.iter().copied().filter(|f| p[*f] != o[*f]).collect();
                    format!("{name}:{}", diff.join("+"))
                }
                (Some(p), Some(o)) => format!("{}/{}", p["ev"].as_str().unwrap_or("?"), o["ev"].as_str().unwrap_or("?")),
                (Some(p), None) => format!("{}/-", p["ev"].as_str().unwrap_or("?")),
                _ => "-/extra".to_string(),
            };
            return Some(json!({"what":"observation","sig":sig,"at":i,"want":p,"got":o}));
        }
    }
    None
}

struct ReplayOut {
    divergence: Option<Value>,
    trace: Vec<Value>,
    nontrivial: bool,
}

fn replay_prim(beh: &[Value], nh: usize, tcpcls: u64) -> ReplayOut {
    let mut p = Prim::new(nh, tcpcls);
    for a in beh {
        match a["a"].as_str().unwrap() {
            "install" => {
                p.install(a["kind"].as_str().unwrap(), table_of(&a["table"]));
            }
            "enter" => p.enter(),
            "dropguard" => p.dropguard(a["id"].as_u64().unwrap()),
            "forget" => p.forget(a["id"].as_u64().unwrap()),
            "emit" => p.emit(
                a["tag"].as_u64().unwrap(),
                a["h"].as_u64().unwrap() as usize,
                a["cls"].as_u64().unwrap(),
                a["sock"].as_u64().unwrap() as usize,
                a["via"].as_str().unwrap(),
            ),
            "tick" => p.round(),
            _ => {} // observations
        }
    }
    let trace = p.finish();
    let obs = canonical(&trace[1..]);
    let divergence = compare(&predicted(beh), &obs);
    ReplayOut { divergence, nontrivial: nontrivial(beh), trace }
}

fn plan_of(beh: &[Value], nh: usize, nc: usize, tcpcls: u64) -> FixPlan {
    let mut iters: Vec<Vec<Op>> = vec![];
    let mut cur: Vec<Op> = vec![];
    for a in beh {
        match a["a"].as_str().unwrap() {
            "install" => cur.push(Op::Install { table: table_of(&a["table"]) }),
            "dropguard" => cur.push(Op::DropGuard { id: a["id"].as_u64().unwrap() }),
            "forget" => cur.push(Op::Forget { id: a["id"].as_u64().unwrap() }),
            "emit" => cur.push(Op::Send {
                cls: a["cls"].as_u64().unwrap(),
                sock: a["sock"].as_u64().unwrap() as usize,
                via: a["via"].as_str().unwrap().to_string(),
                copies: 1,
            }),
            "tick" => iters.push(std::mem::take(&mut cur)),
            _ => {}
        }
    }
    FixPlan { nh, nc, tcpcls, iters, idle: 0, tcp: false, echo_cls: 0, retx_threshold: 3 }
}

fn replay_fix(beh: &[Value], nh: usize, nc: usize, tcpcls: u64) -> ReplayOut {
    let plan = plan_of(beh, nh, nc, tcpcls);
    let trace = run_fixture(&plan);
    // reset + the prelude's install / forget are not part of the behaviour
    let obs = canonical(&trace[3..]);
    let divergence = compare(&predicted(beh), &obs);
    ReplayOut { divergence, nontrivial: nontrivial(beh), trace }
}

/// contains a rule installation and a packet whose fate a rule decided
fn nontrivial(beh: &[Value]) -> bool {
    beh.iter().any(|a| a["a"] == "install")
        && beh.iter().any(|a| a["a"] == "eval" && a["decision"] != json!(PASS))
}

fn main_replay(args: &[String]) {
    let inp = util::arg(args, "in").expect("in=");
    let out = util::arg(args, "out").expect("out=");
    let traces = util::arg(args, "traces");
    let mode = util::arg(args, "mode").unwrap_or("prim".into());
    let nh = util::arg_u64(args, "nh", 3) as usize;
    let nc = util::arg_u64(args, "nc", 2) as usize;
    let tcpcls = util::arg_u64(args, "tcpcls", 0);
    let text = std::fs::read_to_string(&inp).expect("read behaviours");
    let (mut total, mut nontriv, mut ndiv) = (0u64, 0u64, 0u64);
    let mut divs: Vec<Value> = Vec::new();
    let mut samples: Vec<Value> = Vec::new();
    let mut all_div: Vec<Value> = Vec::new();
    let mut sigs: BTreeMap<String, u32> = BTreeMap::new();
    for (k, line) in text.lines().enumerate() {
        if line.trim().is_empty() {
            continue;
        }
        let beh: Vec<Value> = serde_json::from_str(line).expect("behaviour json");
        let r = match util::catch(|| match mode.as_str() {
            "prim" => replay_prim(&beh, nh, tcpcls),
            _ => replay_fix(&beh, nh, nc, tcpcls),
        }) {
            Ok(r) => r,
            Err(p) => ReplayOut { divergence: Some(json!({"what":"panic","msg":p})), trace: vec![], nontrivial: false },
        };
        total += 1;
        if r.nontrivial {
            nontriv += 1;
        }
        if samples.len() < 2 && r.nontrivial && r.trace.len() > 8 {
            samples.push(json!({"behaviour": beh, "trace_excerpt": r.trace.iter().take(14).collect::<Vec<_>>()}));
        }
        if let Some(mut d) = r.divergence {
            ndiv += 1;
            // keep a spread: at most 60 per kind of divergence, 600 in total
            let sig = d["sig"].as_str().unwrap_or("panic").to_string();
            let n = sigs.entry(sig).or_insert(0u32);
            *n += 1;
            if *n <= 60 && divs.len() < 600 {
                d["line"] = json!(k);
                d["behaviour"] = json!(beh);
                if !r.trace.is_empty() {
                    // all divergent traces go into one file (each starts with `reset`)
                    d["first_event"] = json!(all_div.len() + 1);
                    d["events"] = json!(r.trace.len());
                    all_div.extend(r.trace);
                }
                divs.push(d);
            }
        }
    }
    let mut div_trace = Value::Null;
    if let (Some(dir), false) = (&traces, all_div.is_empty()) {
        let p = format!("{dir}/div-{mode}-all.ndjson");
        util::write_ndjson(&p, &all_div);
        div_trace = json!(p);
    }
    let summary = json!({"behaviours": total, "nontrivial": nontriv, "divergent": ndiv,
        "divergences": divs, "div_trace": div_trace, "div_kinds": sigs, "samples": samples});
    std::fs::write(&out, serde_json::to_string(&summary).unwrap()).unwrap();
    println!("replayed={total} nontrivial={nontriv} divergent={ndiv}");
}

// ---------------------------------------------------------------------------
// random scenarios (code -> spec)

fn rand_table(rng: &mut SmallRng, nc: usize, tcpcls: u64, fixture: bool) -> Vec<i64> {
    (1..=nc)
        .map(|c| {
            if c as u64 == tcpcls && fixture {
                // never drop TCP under the fixture: retransmission is count-based per egress pass
                *[PASS, PASS, 0, 1, 2].get(rng.random_range(0..5)).unwrap()
            } else {
                *[PASS, PASS, PASS, DROP, 0, 0, 1, 2, 2, 3, 4, 4, 5, 7].get(rng.random_range(0..14)).unwrap()
            }
        })
        .collect()
}

fn random_prim(rng: &mut SmallRng, all: &mut Vec<Value>, counts: &mut [u64; 3]) {
    let nh = 3;
    let (nc, tcpcls) = (3usize, 3u64);
    let mut p = Prim::new(nh, tcpcls);
    for _ in 0..rng.random_range(0..3) {
        p.install("permanent", rand_table(rng, nc, tcpcls, false));
        counts[0] += 1;
    }
    p.enter();
    for _ in 0..rng.random_range(0..3) {
        let kind = if rng.random_bool(0.5) { "enter_guard" } else { "free" };
        p.install(kind, rand_table(rng, nc, tcpcls, false));
        counts[0] += 1;
    }
    let mut tag = 1u64;
    for _ in 0..rng.random_range(2..6) {
        for _ in 0..rng.random_range(0..7) {
            match rng.random_range(0..10) {
                0 | 1 => {
                    let kind = if rng.random_bool(0.5) { "enter_guard" } else { "free" };
                    p.install(kind, rand_table(rng, nc, tcpcls, false));
                    counts[0] += 1;
                }
                2 | 3 => {
                    let live: Vec<u64> = p.guards.keys().copied().collect();
                    if !live.is_empty() {
                        let id = live[rng.random_range(0..live.len())];
                        if rng.random_bool(0.6) {
                            p.dropguard(id)
                        } else {
                            p.forget(id)
                        }
                        counts[0] += 1;
                    }
                }
                4 => {
                    p.emit(tag, rng.random_range(1..=nh), tcpcls, 0, "ip");
                    tag += 1;
                    counts[1] += 1;
                }
                _ => {
                    let h = rng.random_range(1..=nh);
                    let (sock, via) = match rng.random_range(0..5) {
                        0 => (h, "lo"),
                        1 => (h, "ip"),
                        _ => (rng.random_range(1..=nh), "ip"),
                    };
                    p.emit(tag, h, rng.random_range(1..=2), sock, via);
                    tag += 1;
                    counts[1] += 1;
                }
            }
        }
        p.round();
    }
    all.extend(p.finish());
}

fn random_plan(rng: &mut SmallRng, lo: bool) -> FixPlan {
    let nh = 3;
    let (nc, tcpcls) = (3usize, 3u64);
    let mut iters = vec![];
    let mut next_rule = 2u64;
    let mut live: Vec<u64> = vec![];
    for it in 0..rng.random_range(3..9) {
        let mut ops = vec![];
        if it == 0 {
            // start with a chain of a few rules so that removals from the middle occur
            for _ in 0..rng.random_range(0..4) {
                ops.push(Op::Install { table: rand_table(rng, nc, tcpcls, true) });
                live.push(next_rule);
                next_rule += 1;
            }
        }
        for _ in 0..rng.random_range(0..5) {
            match rng.random_range(0..10) {
                0 | 1 => {
                    ops.push(Op::Install { table: rand_table(rng, nc, tcpcls, true) });
                    live.push(next_rule);
                    next_rule += 1;
                }
                2 => {
                    if !live.is_empty() {
                        let id = live.remove(rng.random_range(0..live.len()));
                        ops.push(if rng.random_bool(0.6) { Op::DropGuard { id } } else { Op::Forget { id } });
                    }
                }
                _ => {
                    let (sock, via) = if lo {
                        (1, "lo")
                    } else {
                        match rng.random_range(0..8) {
                            0 => (nh, "lo"),
                            1 => (nh, "ip"),
                            _ => (rng.random_range(1..nh), "ip"),
                        }
                    };
                    // one send in four is a pair of byte-identical datagrams
                    let copies = if rng.random_bool(0.25) { 2 } else { 1 };
                    ops.push(Op::Send { cls: rng.random_range(1..=2), sock, via: via.to_string(), copies });
                }
            }
        }
        iters.push(ops);
    }
    FixPlan {
        nh,
        nc,
        tcpcls,
        iters,
        idle: 8,
        tcp: !lo && rng.random_bool(0.6),
        echo_cls: if !lo && rng.random_bool(0.5) { 2 } else { 0 },
        retx_threshold: 24,
    }
}

/// Directed ClientServer plans for "equal and crossing deadlines": packet A (delay `a`) and packet C (delay 7)
/// are emitted in iteration 0, so C is the scheduler's latest deadline; `gap` iterations later the rule is
/// replaced and packet B of A's class gets delay `b`.  For the (a, gap, b) combinations with a = b + gap * (units
/// per iteration) B's deadline is earlier than the queue's tail and equal to that of the earlier-emitted, still
/// pending A; the other combinations cross without a tie.
fn crossing_plans() -> Vec<FixPlan> {
    let mut plans = vec![];
    for a in [3i64, 4, 5] {
        for gap in [1usize, 2] {
            for b in [1i64, 2, 3] {
                let send = |cls: u64| Op::Send { cls, sock: 1, via: "ip".to_string(), copies: 1 };
                let mut iters = vec![vec![Op::Install { table: vec![a, 7, PASS] }, send(1), send(2)]];
                for _ in 1..gap {
                    iters.push(vec![]);
                }
                iters.push(vec![Op::DropGuard { id: 2 }, Op::Install { table: vec![b, 7, PASS] }, send(1)]);
                plans.push(FixPlan { nh: 3, nc: 3, tcpcls: 3, iters, idle: 12, tcp: false, echo_cls: 0, retx_threshold: 24 });
            }
        }
    }
    plans
}

fn main_random(args: &[String]) {
    let seed = util::arg_u64(args, "seed", 1);
    let runs = util::arg_u64(args, "runs", 20);
    let mode = util::arg(args, "mode").unwrap_or("prim".into());
    let out = util::arg(args, "out").expect("out=");
    let mut rng = SmallRng::seed_from_u64(seed ^ 0x72756c65);
    let mut all: Vec<Value> = Vec::new();
    let mut counts = [0u64; 3];
    if mode == "fix" {
        for plan in crossing_plans() {
            all.extend(run_fixture(&plan));
        }
    }
    for _ in 0..runs {
        match mode.as_str() {
            "prim" => random_prim(&mut rng, &mut all, &mut counts),
            m => {
                let plan = random_plan(&mut rng, m == "lo");
                let t = if m == "lo" { run_lo(&plan) } else { run_fixture(&plan) };
                all.extend(t);
            }
        }
    }
    let n = |name: &str| all.iter().filter(|e| e["ev"] == name).count();
    println!(
        "runs={runs} events={} installs={} evals={} arrivals={} sends={}",
        all.len(), n("install"), n("eval"), n("arrive"), n("send")
    );
    util::write_ndjson(&out, &all);
}

fn main() {
    let args: Vec<String> = std::env::args().skip(1).collect();
    match args.first().map(|s| s.as_str()) {
        Some("replay") => main_replay(&args[1..]),
        Some("random") => main_random(&args[1..]),
        _ => {
            eprintln!("usage: rules replay|random key=value...");
            std::process::exit(2);
        }
    }
}
