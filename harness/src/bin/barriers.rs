//! C20 driver: turmoil::barriers.
//!
//! * `replay in=<behaviours.ndjson> out=<summary.json> traces=<dir> nsrc=<n>`
//!   Each input line is a behaviour of BarriersGen: the event trace TLC predicts.
//!   The test-level events (build, drop_barrier, wait, drop_handle, trig, poll)
//!   are executed on the real `turmoil::barriers` API with sources as futures
//!   polled by hand inside a paused current-thread tokio runtime; the events the
//!   code produces (wait results, ret, panicked, poll_end with the progress
//!   counters) are compared with the predicted ones. The observed trace of a
//!   divergent behaviour is written to `traces/` so that TLC can judge it
//!   against the PropSpec.
//! * `random seed= runs= nsrc= maxbars= ops= out=`  seeded random interleavings
//!   (more sources, barriers, values and operations than the bounded model).
//! * `sim seed= runs= hosts= steps= out=`  sources are hosts of a turmoil Sim
//!   (tokio tasks, sleeps, the fs corruption hook with corruption_probability 1),
//!   the test thread builds / waits / drops between `Sim::step` calls.
//!
//! Trace schema (one JSON object per line), identical for predictions and
//! recordings: `reset{nsrc}`, `build{b,reaction,cond}`, `drop_barrier{b}`,
//! `wait{b,res}`, `drop_handle{t}`, `trig{src,v,sync,t}`, `poll{src}`,
//! `ret{src,t,prog}`, `panicked{src,t}`, `poll_end{src,prog}`.

use rand::rngs::SmallRng;
use rand::{Rng, SeedableRng};
use serde_json::{json, Value};
use std::cell::{Cell, RefCell};
use std::collections::BTreeMap;
use std::future::Future;
use std::pin::Pin;
use std::rc::Rc;
use std::task::{Context, Poll, Waker};
use std::time::Duration;
use turmoil::barriers::{trigger, trigger_noop, Barrier, Reaction, Triggered};
use turmoil::fs::FsCorruption;
use vh::{rec, util};

/// Trigger value used by the sources. Conditions look at `v` only; `src`/`t`
/// identify the individual trigger call so that a wait result can be attributed.
#[derive(Debug, Clone)]
struct Val {
    v: u8,
    #[allow(dead_code)]
    src: usize,
    t: u64,
    /// prepared triggers: the value is built before the trigger id is known (the id is given when the
    /// future is first polled)
    late: Option<std::sync::Arc<std::sync::atomic::AtomicU64>>,
}
impl Val {
    /// trigger id this value belongs to; 999_998 = a prepared trigger whose future was never polled
    fn tid(&self) -> u64 {
        match &self.late {
            None => self.t,
            Some(a) => match a.load(std::sync::atomic::Ordering::Relaxed) {
                0 => 999_998,
                t => t,
            },
        }
    }
}

/// A trigger type no barrier is ever built for (value 0 of the model).
#[derive(Debug, Clone)]
struct Foreign(#[allow(dead_code)] u8);

struct YieldOnce(bool);
impl Future for YieldOnce {
    type Output = ();
    fn poll(mut self: Pin<&mut Self>, _: &mut Context<'_>) -> Poll<()> {
        if self.0 {
            Poll::Ready(())
        } else {
            self.0 = true;
            Poll::Pending
        }
    }
}

const NO_GUARD: u8 = 99;
/// (value, sync, guard value or NO_GUARD, mode)
/// mode 0: call trigger / trigger_noop now; 1: only BUILD the future `trigger(v)` and keep it ("prepared
/// trigger"); 2: await the prepared future (its first poll); 3: drop the prepared future unpolled
type Cmd = (u8, bool, u8, u8);
type Mailbox = Rc<RefCell<Option<Cmd>>>;

/// A cleanup guard held across a trigger call: if it is dropped while the thread is unwinding (the call
/// panicked) its destructor fires `trigger_noop(g)`, bumps the progress counter when that returns and records
/// both; a panic of that nested trigger is caught inside the destructor and recorded.
struct CleanupGuard {
    s: usize,
    g: u8,
    prog: Rc<Cell<u64>>,
    next_t: Rc<Cell<u64>>,
}
impl Drop for CleanupGuard {
    fn drop(&mut self) {
        if !std::thread::panicking() {
            return;
        }
        let (s, g) = (self.s, self.g);
        let t = self.next_t.get() + 1;
        self.next_t.set(t);
        rec::emit(json!({"ev":"trig","src":s,"v":g,"sync":true,"t":t,"g":NO_GUARD,"unwind":true,"prepared":false}));
        let r = std::panic::catch_unwind(std::panic::AssertUnwindSafe(|| {
            if g == 0 { trigger_noop(Foreign(0)) } else { trigger_noop(Val { v: g, src: s, t, late: None }) }
        }));
        match r {
            Ok(()) => {
                self.prog.set(self.prog.get() + 1);
                rec::emit(json!({"ev":"ret","src":s,"t":t,"prog":self.prog.get()}));
            }
            Err(_) => rec::emit(json!({"ev":"panicked","src":s,"t":t})),
        }
    }
}

/// The triggering code: between trigger calls it is parked on a yield; when the
/// driver polls it with a command in the mailbox it performs that trigger call,
/// bumps its progress counter when the call returns, and yields again.
async fn source(s: usize, mb: Mailbox, prog: Rc<Cell<u64>>, next_t: Rc<Cell<u64>>, cur_t: Rc<Cell<u64>>, inside: Rc<Cell<bool>>, prepped: Rc<Cell<bool>>) {
    type Prepared = (Pin<Box<dyn Future<Output = ()>>>, std::sync::Arc<std::sync::atomic::AtomicU64>, u8);
    let mut prepared: Option<Prepared> = None;
    loop {
        let cmd = mb.borrow_mut().take();
        match cmd {
            Some((v, _, _, 1)) => {
                // build the future now, poll it later: with an `async fn trigger` nothing may happen here
                rec::emit(json!({"ev":"prep","src":s,"v":v}));
                let late = std::sync::Arc::new(std::sync::atomic::AtomicU64::new(0));
                let fut: Pin<Box<dyn Future<Output = ()>>> = Box::pin(trigger(Val { v, src: s, t: 0, late: Some(late.clone()) }));
                prepared = Some((fut, late, v));
                prepped.set(true);
            }
            Some((_, _, _, 3)) => {
                rec::emit(json!({"ev":"drop_prep","src":s}));
                prepared = None;
                prepped.set(false);
            }
            Some((_, _, _, 2)) => {
                if let Some((fut, late, v)) = prepared.take() {
                    prepped.set(false);
                    let t = next_t.get() + 1;
                    next_t.set(t);
                    cur_t.set(t);
                    late.store(t, std::sync::atomic::Ordering::Relaxed);
                    inside.set(true);
                    rec::emit(json!({"ev":"trig","src":s,"v":v,"sync":false,"t":t,"g":NO_GUARD,"unwind":false,"prepared":true}));
                    fut.await;
                    prog.set(prog.get() + 1);
                    inside.set(false);
                    rec::emit(json!({"ev":"ret","src":s,"t":t,"prog":prog.get()}));
                }
            }
            Some((v, sync, g, _)) => {
                let t = next_t.get() + 1;
                next_t.set(t);
                cur_t.set(t);
                inside.set(true);
                rec::emit(json!({"ev":"trig","src":s,"v":v,"sync":sync,"t":t,"g":g,"unwind":false,"prepared":false}));
                let _guard = (g != NO_GUARD).then(|| CleanupGuard { s, g, prog: prog.clone(), next_t: next_t.clone() });
                match (v, sync) {
                    (0, true) => trigger_noop(Foreign(0)),
                    (0, false) => trigger(Foreign(0)).await,
                    (_, true) => trigger_noop(Val { v, src: s, t, late: None }),
                    (_, false) => trigger(Val { v, src: s, t, late: None }).await,
                }
                prog.set(prog.get() + 1);
                inside.set(false);
                rec::emit(json!({"ev":"ret","src":s,"t":t,"prog":prog.get()}));
            }
            None => {}
        }
        YieldOnce(false).await;
    }
}

struct Src {
    fut: Option<Pin<Box<dyn Future<Output = ()>>>>,
    mb: Mailbox,
    prog: Rc<Cell<u64>>,
    cur_t: Rc<Cell<u64>>,
    /// inside a trigger call (parked on the barrier)
    inside: Rc<Cell<bool>>,
    /// holds a prepared (built, not yet polled) trigger future
    prepped: Rc<Cell<bool>>,
}

struct World {
    bars: Vec<Option<Barrier<Val>>>,
    handles: BTreeMap<u64, Triggered<Val>>,
    srcs: Vec<Src>,
}

fn reaction_of(s: &str) -> Reaction {
    match s {
        "Noop" => Reaction::Noop,
        "Suspend" => Reaction::Suspend,
        "Panic" => Reaction::Panic,
        o => panic!("unknown reaction {o}"),
    }
}

impl World {
    fn new(nsrc: usize) -> World {
        let next_t = Rc::new(Cell::new(0u64));
        let mut srcs = Vec::new();
        for s in 1..=nsrc {
            let mb: Mailbox = Rc::new(RefCell::new(None));
            let prog = Rc::new(Cell::new(0u64));
            let cur_t = Rc::new(Cell::new(0u64));
            let inside = Rc::new(Cell::new(false));
            let prepped = Rc::new(Cell::new(false));
            let fut = Box::pin(source(s, mb.clone(), prog.clone(), next_t.clone(), cur_t.clone(), inside.clone(), prepped.clone()));
            srcs.push(Src { fut: Some(fut), mb, prog, cur_t, inside, prepped });
        }
        rec::emit(json!({"ev":"reset","nsrc":nsrc}));
        World { bars: Vec::new(), handles: BTreeMap::new(), srcs }
    }

    fn build(&mut self, reaction: &str, cond: Vec<u8>) {
        let b = self.bars.len() + 1;
        let c = cond.clone();
        let bar = Barrier::build(reaction_of(reaction), move |x: &Val| c.contains(&x.v));
        self.bars.push(Some(bar));
        rec::emit(json!({"ev":"build","b":b,"reaction":reaction,"cond":cond}));
    }

    fn live(&self, b: usize) -> bool {
        b >= 1 && b <= self.bars.len() && self.bars[b - 1].is_some()
    }

    fn drop_barrier(&mut self, b: usize) -> bool {
        if !self.live(b) {
            return false;
        }
        self.bars[b - 1] = None;
        rec::emit(json!({"ev":"drop_barrier","b":b}));
        true
    }

    /// Barrier::wait polled once.
    fn wait(&mut self, b: usize) -> bool {
        if !self.live(b) {
            return false;
        }
        let bar = self.bars[b - 1].as_mut().unwrap();
        let mut cx = Context::from_waker(Waker::noop());
        let r = {
            let mut f = std::pin::pin!(bar.wait());
            f.as_mut().poll(&mut cx)
        };
        let res = match r {
            Poll::Pending => 0,
            Poll::Ready(Some(tr)) => {
                let t = tr.tid();
                self.handles.insert(t, tr);
                t
            }
            Poll::Ready(None) => 999_999, // channel closed: cannot happen while the barrier is registered
        };
        rec::emit(json!({"ev":"wait","b":b,"res":res}));
        true
    }

    fn drop_handle(&mut self, t: u64) -> bool {
        if self.handles.remove(&t).is_none() {
            return false;
        }
        rec::emit(json!({"ev":"drop_handle","t":t}));
        true
    }

    /// Poll source s once; `cmd` = the trigger call it shall make (only when it
    /// is between calls), None = plain poll of a parked source.
    fn poll_src(&mut self, s: usize, cmd: Option<Cmd>) -> bool {
        let src = &mut self.srcs[s - 1];
        let Some(fut) = src.fut.as_mut() else { return false };
        match cmd {
            Some(c) => {
                if src.inside.get() {
                    return false;
                }
                // a source holds at most one prepared future; firing / dropping needs one
                if (c.3 == 1 && (src.prepped.get() || c.0 == 0)) || ((c.3 == 2 || c.3 == 3) && !src.prepped.get()) {
                    return false;
                }
                *src.mb.borrow_mut() = Some(c);
            }
            None => {
                if !src.inside.get() {
                    return false;
                }
                rec::emit(json!({"ev":"poll","src":s}));
            }
        }
        let mut cx = Context::from_waker(Waker::noop());
        let r = std::panic::catch_unwind(std::panic::AssertUnwindSafe(|| fut.as_mut().poll(&mut cx)));
        match r {
            Ok(_) => {
                rec::emit(json!({"ev":"poll_end","src":s,"prog":src.prog.get()}));
            }
            Err(_) => {
                src.fut = None;
                src.inside.set(false);
                // the call panicked first, then the unwinding ran the cleanup guard (if any): put the
                // `panicked` record of the call in front of the records the guard produced
                let mut all = rec::take();
                let at = all.iter().position(|e| e["unwind"] == true && e["src"] == s && e["t"].as_u64() > Some(src.cur_t.get()))
                    .unwrap_or(all.len());
                all.insert(at, json!({"ev":"panicked","src":s,"t":src.cur_t.get()}));
                for e in all {
                    rec::emit(e);
                }
            }
        }
        true
    }
}

fn norm(e: &Value) -> Value {
    // cond: a set in the model -> compare sorted
    let mut e = e.clone();
    if let Some(c) = e.get_mut("cond").and_then(|c| c.as_array_mut()) {
        c.sort_by_key(|x| x.as_u64().unwrap_or(0));
    }
    e
}

/// Execute the test-level events of a predicted trace; returns the observed trace.
fn execute(beh: &[Value], nsrc: usize) -> (Vec<Value>, Option<String>) {
    let _ = rec::take();
    let mut w = World::new(nsrc);
    let mut stopped = None;
    for (i, e) in beh.iter().enumerate() {
        let ev = e["ev"].as_str().unwrap_or("");
        let ok = match ev {
            "build" => {
                let cond: Vec<u8> = e["cond"].as_array().unwrap().iter().map(|x| x.as_u64().unwrap() as u8).collect();
                let mut cond = cond;
                cond.sort();
                w.build(e["reaction"].as_str().unwrap(), cond);
                true
            }
            "drop_barrier" => w.drop_barrier(e["b"].as_u64().unwrap() as usize),
            "wait" => w.wait(e["b"].as_u64().unwrap() as usize),
            "drop_handle" => w.drop_handle(e["t"].as_u64().unwrap()),
            "trig" if e["unwind"] == true => true, // produced by the cleanup guard of the code under test
            "prep" => w.poll_src(e["src"].as_u64().unwrap() as usize, Some((e["v"].as_u64().unwrap() as u8, false, NO_GUARD, 1))),
            "drop_prep" => w.poll_src(e["src"].as_u64().unwrap() as usize, Some((0, false, NO_GUARD, 3))),
            "trig" if e["prepared"] == true => w.poll_src(e["src"].as_u64().unwrap() as usize, Some((0, false, NO_GUARD, 2))),
            "trig" => w.poll_src(
                e["src"].as_u64().unwrap() as usize,
                Some((e["v"].as_u64().unwrap() as u8, e["sync"].as_bool().unwrap(), e["g"].as_u64().unwrap_or(NO_GUARD as u64) as u8, 0)),
            ),
            "poll" => w.poll_src(e["src"].as_u64().unwrap() as usize, None),
            _ => true, // ret / panicked / poll_end are produced by the code
        };
        if !ok {
            stopped = Some(format!("operation #{i} {e} not applicable in the state the code is in"));
            break;
        }
    }
    drop(w);
    (rec::take(), stopped)
}

fn main_replay(args: &[String]) {
    let inp = util::arg(args, "in").expect("in=");
    let out = util::arg(args, "out").expect("out=");
    let traces = util::arg(args, "traces").expect("traces=");
    let nsrc = util::arg_u64(args, "nsrc", 2) as usize;
    let text = std::fs::read_to_string(&inp).expect("read behaviours");
    let rt = tokio::runtime::Builder::new_current_thread().enable_time().start_paused(true).build().unwrap();
    let _g = rt.enter();
    std::panic::set_hook(Box::new(|_| {}));
    let mut total = 0u64;
    let mut nontrivial = 0u64;
    let mut ndiv = 0u64;
    let mut divs: Vec<Value> = Vec::new();
    let mut cands: Vec<(String, Value, Vec<Value>)> = Vec::new();
    let mut samples: Vec<Value> = Vec::new();
    for (ln, line) in text.lines().enumerate() {
        if line.trim().is_empty() {
            continue;
        }
        let beh: Vec<Value> = serde_json::from_str(line).expect("behaviour json");
        total += 1;
        // non-trivial: a trigger that designates a barrier and a wait / poll that depends on it
        let has_wait_hit = beh.iter().any(|e| e["ev"] == "wait" && e["res"].as_u64().unwrap_or(0) > 0);
        let has_poll = beh.iter().any(|e| e["ev"] == "poll" || e["ev"] == "panicked");
        if has_wait_hit || has_poll {
            nontrivial += 1;
        }
        let (obs, stopped) = execute(&beh, nsrc);
        let pred: Vec<Value> = std::iter::once(json!({"ev":"reset","nsrc":nsrc})).chain(beh.iter().map(norm)).collect();
        let obsn: Vec<Value> = obs.iter().map(norm).collect();
        if pred != obsn {
            ndiv += 1;
            let k = pred.iter().zip(obsn.iter()).position(|(a, b)| a != b).unwrap_or(pred.len().min(obsn.len()));
            let ev = |e: Option<&Value>| e.map(|e| format!("{}{}", e["ev"].as_str().unwrap_or("?"), if e["unwind"] == true { "!" } else { "" })).unwrap_or("-".into());
            let sig = format!("{}|{}", ev(pred.get(k)), ev(obsn.get(k)));
            cands.push((sig, json!({"line": ln, "what": format!("event #{k} differs"), "predicted": pred.get(k), "observed": obsn.get(k),
                "stopped": stopped, "behaviour": beh}), obs));
        } else if samples.len() < 2 && has_wait_hit && has_poll {
            samples.push(json!({"behaviour": beh, "observed_equal": true}));
        }
    }
    // Every kind of divergence goes to the PropSpec: per signature (predicted event kind | observed event kind)
    // up to 400 divergent behaviours, evenly spaced, at most 3000 in total; their observed traces are
    // concatenated (each starts with a reset record) into one file for a single TLC run.
    let mut by_sig: BTreeMap<String, Vec<usize>> = BTreeMap::new();
    for (i, c) in cands.iter().enumerate() {
        by_sig.entry(c.0.clone()).or_default().push(i);
    }
    let per = (3000 / by_sig.len().max(1)).clamp(1, 400);
    let mut chosen: Vec<usize> = Vec::new();
    for v in by_sig.values() {
        let stride = v.len().div_ceil(per).max(1);
        chosen.extend(v.iter().step_by(stride).copied());
    }
    chosen.sort();
    let mut all_lines: Vec<Value> = Vec::new();
    for i in chosen {
        let (sig, meta, obs) = &cands[i];
        let mut m = meta.clone();
        m["start"] = json!(all_lines.len() + 1);
        m["signature"] = json!(sig);
        all_lines.extend(obs.iter().cloned());
        m["end"] = json!(all_lines.len());
        divs.push(m);
    }
    let div_all = format!("{traces}/div_all.ndjson");
    util::write_ndjson(&div_all, &all_lines);
    let sigs: BTreeMap<String, usize> = by_sig.iter().map(|(k, v)| (k.clone(), v.len())).collect();
    let summary = json!({"behaviours": total, "nontrivial": nontrivial, "divergent": ndiv, "divergences": divs,
        "div_all": div_all, "signatures": sigs, "samples": samples});
    std::fs::write(&out, serde_json::to_string(&summary).unwrap()).unwrap();
    println!("replayed={total} nontrivial={nontrivial} divergent={ndiv}");
}

// ---------------------------------------------------------------------------
// random interleavings (code -> spec)

fn main_random(args: &[String]) {
    let seed = util::arg_u64(args, "seed", 1);
    let runs = util::arg_u64(args, "runs", 50);
    let nsrc = util::arg_u64(args, "nsrc", 3) as usize;
    let maxbars = util::arg_u64(args, "maxbars", 4) as usize;
    let ops = util::arg_u64(args, "ops", 40);
    let nvals = util::arg_u64(args, "nvals", 4) as u8;
    let out = util::arg(args, "out").expect("out=");
    // burst=N: every run starts with a Suspend-free (Noop) barrier that accepts every value and N..2N
    // matching triggers (async and sync, from all sources) before the first wait; the drain at the end
    // must then see every one of them, in trigger order.
    let burst = util::arg_u64(args, "burst", 0);
    let rt = tokio::runtime::Builder::new_current_thread().enable_time().start_paused(true).build().unwrap();
    let _g = rt.enter();
    std::panic::set_hook(Box::new(|_| {}));
    let mut rng = SmallRng::seed_from_u64(seed ^ 0x6261_7272);
    let mut all: Vec<Value> = Vec::new();
    let (mut ntrig, mut nwait, mut nhit) = (0u64, 0u64, 0u64);
    for _ in 0..runs {
        let _ = rec::take();
        let mut w = World::new(nsrc);
        let panic_ok = rng.random_bool(0.5);
        if burst > 0 {
            w.build("Noop", (1..=nvals).collect());
            let n = rng.random_range(burst..=2 * burst);
            for _ in 0..n {
                let s = rng.random_range(1..=nsrc);
                let v = rng.random_range(1..=nvals);
                let sync = rng.random_bool(0.3);
                // a source that got stuck inside a call is polled instead (its poll_end records that it is stuck)
                if w.poll_src(s, Some((v, sync, NO_GUARD, 0))) {
                    ntrig += 1;
                } else {
                    w.poll_src(s, None);
                }
            }
            // drain: every trigger of the burst must come out, in trigger order
            loop {
                let before = w.handles.len();
                w.wait(1);
                if w.handles.len() == before {
                    break;
                }
                nwait += 1;
                nhit += 1;
            }
        }
        for op in 0..ops {
            match if op < 2 { 0 } else { rng.random_range(0..100) } {
                0..10 => {
                    if w.bars.len() < maxbars {
                        let mut cond: Vec<u8> = (1..=nvals).filter(|_| rng.random_bool(0.6)).collect();
                        if cond.is_empty() {
                            cond.push(rng.random_range(1..=nvals));
                        }
                        let r = match rng.random_range(0..20) {
                            0..8 => "Noop",
                            8..19 => "Suspend",
                            _ => if panic_ok { "Panic" } else { "Suspend" },
                        };
                        w.build(r, cond);
                    }
                }
                10..14 => {
                    if !w.bars.is_empty() {
                        let b = rng.random_range(1..=w.bars.len());
                        w.drop_barrier(b);
                    }
                }
                14..40 => {
                    let s = rng.random_range(1..=nsrc);
                    let v = rng.random_range(0..=nvals);
                    let sync = rng.random_bool(0.25);
                    // one call in five holds a cleanup guard that triggers while the call unwinds
                    let g = if rng.random_bool(0.2) { rng.random_range(0..=nvals) } else { NO_GUARD };
                    // prepared triggers: build the future now, poll (or drop) it later
                    let mode = if w.srcs[s - 1].prepped.get() {
                        if rng.random_bool(0.5) { if rng.random_bool(0.75) { 2 } else { 3 } } else { 0 }
                    } else if rng.random_bool(0.15) && v != 0 {
                        1
                    } else {
                        0
                    };
                    if mode != 0 {
                        w.poll_src(s, Some((v, false, NO_GUARD, mode)));
                    } else if w.poll_src(s, Some((v, sync, g, 0))) {
                        ntrig += 1;
                    }
                }
                40..55 => {
                    let s = rng.random_range(1..=nsrc);
                    w.poll_src(s, None);
                }
                55..88 => {
                    if !w.bars.is_empty() {
                        let b = rng.random_range(1..=w.bars.len());
                        let before = w.handles.len();
                        if w.wait(b) {
                            nwait += 1;
                            if w.handles.len() > before {
                                nhit += 1;
                            }
                        }
                    }
                }
                _ => {
                    if !w.handles.is_empty() {
                        let k = rng.random_range(0..w.handles.len());
                        let t = *w.handles.keys().nth(k).unwrap();
                        w.drop_handle(t);
                    }
                }
            }
        }
        // drain: report what is still queued, release everything, poll every source
        for b in 1..=w.bars.len() {
            while w.live(b) {
                let before = w.handles.len();
                w.wait(b);
                if w.handles.len() == before {
                    break;
                }
            }
        }
        let ts: Vec<u64> = w.handles.keys().copied().collect();
        for t in ts {
            w.drop_handle(t);
        }
        for s in 1..=nsrc {
            w.poll_src(s, None);
        }
        drop(w);
        all.extend(rec::take());
    }
    util::write_ndjson(&out, &all);
    println!("runs={runs} events={} triggers={ntrig} waits={nwait} reported={nhit}", all.len());
}

// ---------------------------------------------------------------------------
// sources inside a Sim (hosts = tokio tasks on turmoil's per-host runtimes)

fn fpath(v: u8) -> String {
    format!("/f{v}")
}

/// Host program: a script of (gap ms, value, sync). Values 1..=2 are `Val`
/// triggers; values 3..=4 are reads of one byte of /f<v> under
/// corruption_probability = 1, i.e. synchronous `trigger_noop(FsCorruption)`
/// fired by turmoil's fs corruption hook (the read offset carries the trigger id).
type SharedBars = Rc<RefCell<Vec<Option<AnyBar>>>>;

fn build_fs_barrier(bars: &mut Vec<Option<AnyBar>>, cond: Vec<u8>, by: usize) {
    let b = bars.len() + 1;
    let paths: Vec<std::path::PathBuf> = cond.iter().map(|v| fpath(*v).into()).collect();
    bars.push(Some(AnyBar::F(Barrier::build(Reaction::Noop, move |x: &FsCorruption| paths.contains(&x.path)))));
    rec::emit(json!({"ev":"build","b":b,"reaction":"Noop","cond":cond,"by":by}));
}

async fn sim_source(s: usize, script: Vec<(u64, u8, bool)>, prog: Rc<Cell<u64>>, next_t: Rc<Cell<u64>>, bars: SharedBars) -> turmoil::Result {
    use std::os::unix::fs::FileExt;
    use turmoil::fs::shim::std::fs::OpenOptions;
    let mut files = BTreeMap::new();
    for v in 3u8..=4 {
        let f = OpenOptions::new().read(true).write(true).create(true).open(fpath(v))?;
        f.write_all_at(&[7u8; 512], 0)?;
        files.insert(v, f);
    }
    for (gap, v, sync) in script {
        if gap > 0 {
            tokio::time::sleep(Duration::from_millis(gap)).await;
        }
        if v >= 13 {
            // the host software itself registers a Barrier<FsCorruption> (13: {3}, 14: {4}, 15: {3,4})
            let cond = match v { 13 => vec![3], 14 => vec![4], _ => vec![3, 4] };
            build_fs_barrier(&mut bars.borrow_mut(), cond, s);
            continue;
        }
        let t = next_t.get() + 1;
        next_t.set(t);
        rec::emit(json!({"ev":"trig","src":s,"v":v,"sync":sync,"t":t,"g":NO_GUARD,"unwind":false,"prepared":false}));
        if v >= 3 {
            let mut b = [0u8; 1];
            let n = files[&v].read_at(&mut b, t)?;
            assert_eq!(n, 1);
        } else if sync {
            trigger_noop(Val { v, src: s, t, late: None });
        } else {
            trigger(Val { v, src: s, t, late: None }).await;
        }
        prog.set(prog.get() + 1);
        rec::emit(json!({"ev":"ret","src":s,"t":t,"prog":prog.get()}));
    }
    std::future::pending::<()>().await;
    Ok(())
}

enum AnyBar {
    V(Barrier<Val>),
    F(Barrier<FsCorruption>),
}
enum AnyHandle {
    V(#[allow(dead_code)] Triggered<Val>),
    F(#[allow(dead_code)] Triggered<FsCorruption>),
}

/// Barrier::wait polled once; returns the trigger id (0 = nothing queued) and keeps the handle.
fn wait_any(bar: &mut AnyBar, handles: &mut BTreeMap<u64, AnyHandle>) -> u64 {
    match bar {
        AnyBar::V(bar) => match poll_once(bar.wait()) {
            Poll::Ready(Some(tr)) => {
                let t = tr.tid();
                handles.insert(t, AnyHandle::V(tr));
                t
            }
            Poll::Ready(None) => 999_999,
            Poll::Pending => 0,
        },
        AnyBar::F(bar) => match poll_once(bar.wait()) {
            Poll::Ready(Some(tr)) => {
                let t = tr.offset;
                handles.insert(t, AnyHandle::F(tr));
                t
            }
            Poll::Ready(None) => 999_999,
            Poll::Pending => 0,
        },
    }
}

fn poll_once<F: Future>(f: F) -> Poll<F::Output> {
    let mut cx = Context::from_waker(Waker::noop());
    let mut f = std::pin::pin!(f);
    f.as_mut().poll(&mut cx)
}

fn main_sim(args: &[String]) {
    let seed = util::arg_u64(args, "seed", 1);
    let runs = util::arg_u64(args, "runs", 10);
    let nh = util::arg_u64(args, "hosts", 3) as usize;
    let steps = util::arg_u64(args, "steps", 40);
    let out = util::arg(args, "out").expect("out=");
    let mut rng = SmallRng::seed_from_u64(seed ^ 0x7369_6d62);
    let mut all: Vec<Value> = Vec::new();
    let (mut ntrig, mut nhit, mut nfs) = (0u64, 0u64, 0u64);
    for r in 0..runs {
        let _ = rec::take();
        let mut builder = turmoil::Builder::new();
        builder.rng_seed(seed * 1000 + r).tick_duration(Duration::from_millis(1)).simulation_duration(Duration::from_secs(3600));
        builder.fs().corruption_probability(1.0);
        if rng.random_bool(0.5) {
            builder.enable_random_order();
        }
        let mut sim = builder.build();
        let next_t = Rc::new(Cell::new(0u64));
        let shared_bars: SharedBars = Rc::new(RefCell::new(Vec::new()));
        // in half of the runs the barriers are registered by the host software, inside a step, right before
        // the corrupted reads of that same tick; the test thread then builds none
        let host_builds = rng.random_bool(0.5);
        let mut progs = Vec::new();
        for s in 1..=nh {
            let n = rng.random_range(3..=7);
            let script: Vec<(u64, u8, bool)> = (0..n)
                .map(|_| {
                    let v = rng.random_range(1..=4u8);
                    (rng.random_range(1..=4u64), v, v >= 3)
                })
                .collect();
            let mut script = script;
            if host_builds && (s == 1 || rng.random_bool(0.5)) {
                let c = rng.random_range(13..=15u8);
                let v = if c == 14 { 4 } else { 3 };
                let at = rng.random_range(0..script.len().min(3));
                script.insert(at, (rng.random_range(1..=3u64), c, true));
                // a matching corrupted read in the same tick, right after the registration
                script.insert(at + 1, (0, v, true));
                if rng.random_bool(0.5) {
                    script.insert(at + 2, (0, v, true));
                }
            }
            ntrig += script.iter().filter(|x| x.1 < 13).count() as u64;
            nfs += script.iter().filter(|x| x.1 >= 3 && x.1 < 13).count() as u64;
            let prog = Rc::new(Cell::new(0u64));
            progs.push(prog.clone());
            let nt = next_t.clone();
            // a client: Sim::client takes a !Send future; it never finishes
            sim.client(format!("h{s}"), sim_source(s, script, prog, nt, shared_bars.clone()));
        }
        rec::emit(json!({"ev":"reset","nsrc":nh}));
        let mut handles: BTreeMap<u64, AnyHandle> = BTreeMap::new();
        // which source is inside a call (tracked from the events) -> poll/poll_end synthesis
        let mut open: Vec<bool> = vec![false; nh + 1];
        let mut cur_prog: Vec<u64> = vec![0; nh + 1];
        let mut dead = false;
        for step in 0..steps {
            // test-thread operations between steps (a few builds before the first step)
            let nops = if step == 0 { if host_builds { 0 } else { 3 } } else { rng.random_range(0..=3) };
            let mut bars_guard = shared_bars.borrow_mut();
            let bars: &mut Vec<Option<AnyBar>> = &mut bars_guard;
            for _ in 0..nops {
                match if step == 0 { 0 } else { rng.random_range(0..100) } {
                    0..20 => {
                        if bars.len() < 6 && !host_builds {
                            let b = bars.len() + 1;
                            if rng.random_bool(0.6) {
                                let mut cond: Vec<u8> = (1..=2u8).filter(|_| rng.random_bool(0.6)).collect();
                                if cond.is_empty() {
                                    cond.push(1);
                                }
                                // sync Val triggers exist in the scripts: a Suspend barrier would panic them
                                // (documented); panics end a Sim run, so Suspend only guards value 1 or 2 async
                                let rx = if rng.random_bool(0.5) { "Suspend" } else { "Noop" };
                                let c = cond.clone();
                                bars.push(Some(AnyBar::V(Barrier::build(reaction_of(rx), move |x: &Val| c.contains(&x.v)))));
                                rec::emit(json!({"ev":"build","b":b,"reaction":rx,"cond":cond}));
                            } else {
                                let mut cond: Vec<u8> = (3..=4u8).filter(|_| rng.random_bool(0.6)).collect();
                                if cond.is_empty() {
                                    cond.push(3);
                                }
                                let paths: Vec<std::path::PathBuf> = cond.iter().map(|v| fpath(*v).into()).collect();
                                bars.push(Some(AnyBar::F(Barrier::build(Reaction::Noop, move |x: &FsCorruption| paths.contains(&x.path)))));
                                rec::emit(json!({"ev":"build","b":b,"reaction":"Noop","cond":cond}));
                            }
                        }
                    }
                    20..27 => {
                        if !bars.is_empty() {
                            let b = rng.random_range(1..=bars.len());
                            if bars[b - 1].take().is_some() {
                                rec::emit(json!({"ev":"drop_barrier","b":b}));
                            }
                        }
                    }
                    27..80 => {
                        if !bars.is_empty() {
                            let b = rng.random_range(1..=bars.len());
                            let res = bars[b - 1].as_mut().map(|bar| wait_any(bar, &mut handles));
                            if let Some(res) = res {
                                if res > 0 {
                                    nhit += 1;
                                }
                                rec::emit(json!({"ev":"wait","b":b,"res":res}));
                            }
                        }
                    }
                    _ => {
                        if !handles.is_empty() {
                            let k = rng.random_range(0..handles.len());
                            let t = *handles.keys().nth(k).unwrap();
                            handles.remove(&t);
                            rec::emit(json!({"ev":"drop_handle","t":t}));
                        }
                    }
                }
            }
            drop(bars_guard);
            // one step: every host gets its turn
            let head = rec::take();
            all.extend(head);
            let res = std::panic::catch_unwind(std::panic::AssertUnwindSafe(|| sim.step()));
            let raw = rec::take();
            // group the host events of this step per source (hosts run one after the other)
            let mut k = 0;
            let mut seen = vec![false; nh + 1];
            let mut outv: Vec<Value> = Vec::new();
            while k < raw.len() {
                let src_of = |e: &Value| e["src"].as_u64().or(e["by"].as_u64()).unwrap() as usize;
                let s = src_of(&raw[k]);
                seen[s] = true;
                let mut in_poll = false;
                while k < raw.len() && src_of(&raw[k]) == s {
                    let e = &raw[k];
                    match e["ev"].as_str().unwrap() {
                        "ret" => {
                            if !in_poll {
                                outv.push(json!({"ev":"poll","src":s}));
                                in_poll = true;
                            }
                            cur_prog[s] = e["prog"].as_u64().unwrap();
                            open[s] = false;
                        }
                        "trig" => {
                            if in_poll {
                                // the task went on to its next trigger within the same tick
                                outv.push(json!({"ev":"poll_end","src":s,"prog":cur_prog[s]}));
                            }
                            in_poll = true;
                            open[s] = true;
                        }
                        "build" => {
                            // Barrier::build called by the host software between two of its trigger calls
                            if in_poll {
                                outv.push(json!({"ev":"poll_end","src":s,"prog":cur_prog[s]}));
                            }
                            in_poll = false;
                        }
                        _ => {}
                    }
                    outv.push(e.clone());
                    k += 1;
                }
                if in_poll {
                    outv.push(json!({"ev":"poll_end","src":s,"prog":progs[s - 1].get()}));
                }
            }
            if res.is_err() || matches!(res, Ok(Err(_))) {
                // a host panicked / failed: the run ends here (not expected with these reactions)
                all.extend(outv);
                all.push(json!({"ev":"sim_failed"}));
                dead = true;
                break;
            }
            // parked sources had their turn as well (their task was runnable iff woken)
            for s in 1..=nh {
                if !seen[s] && open[s] {
                    outv.push(json!({"ev":"poll","src":s}));
                    outv.push(json!({"ev":"poll_end","src":s,"prog":progs[s - 1].get()}));
                }
            }
            all.extend(outv);
        }
        if !dead {
            // drain: whatever is still queued on a live barrier must come out, in trigger order
            let mut bars = shared_bars.borrow_mut();
            for b in 1..=bars.len() {
                if let Some(bar) = bars[b - 1].as_mut() {
                    loop {
                        let res = wait_any(bar, &mut handles);
                        rec::emit(json!({"ev":"wait","b":b,"res":res}));
                        if res == 0 || res == 999_999 {
                            break;
                        }
                        nhit += 1;
                    }
                }
            }
        }
        all.extend(rec::take());
        drop(handles);
        shared_bars.borrow_mut().clear();
        drop(sim);
        all.extend(rec::take());
    }
    util::write_ndjson(&out, &all);
    println!("runs={runs} events={} triggers={ntrig} fs_corruption_triggers={nfs} reported={nhit}", all.len());
}

fn main() {
    let args: Vec<String> = std::env::args().skip(1).collect();
    match args.first().map(|s| s.as_str()) {
        Some("replay") => main_replay(&args[1..]),
        Some("random") => main_random(&args[1..]),
        Some("sim") => main_sim(&args[1..]),
        _ => {
            eprintln!("usage: barriers replay|random|sim key=value...");
            std::process::exit(2);
        }
    }
}
