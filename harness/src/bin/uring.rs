//! Driver for the simulated io_uring (specs/uring): C18.
//!
//! Modes
//!   replay in=<behaviours.ndjson> out=<summary.json> traces=<dir> tick=<us> lat=<us> nf=<n> initlen=<n>
//!          [sample=<n>] [seeds=<n>]
//!       every line is one TLC-generated behaviour of UringGen (the consumer's
//!       commands + the observation TLC predicts for each).  It is executed
//!       against a real `Fs` + `IoUringHostState` entered directly (the ring
//!       clock is the `now` the driver passes to `enter`); after every command
//!       the real observation is compared with the prediction.  The order in
//!       which simultaneously matured completions are popped depends on the fs
//!       rng; the driver re-runs a behaviour with other fs seeds until the
//!       order TLC chose is realised.  Divergent behaviours get their recorded
//!       trace written to <traces>/div-<k>.ndjson (the PropSpec judges them);
//!       the traces of the first <sample> behaviours are concatenated into
//!       <traces>/sample.ndjson for validation against both trace specs.
//!   random seed=<s> runs=<n> mode=<direct|sim> tick=<us> latlo=<us> lathi=<us> [cache=1] [cap=<bytes>]
//!          [steps=<n>] [stall=<ms>] [exitcrash=<percent>] out=<trace.ndjson>
//!       seeded random scenarios (several rings and files, deep queues, full-SQ
//!       pushes, cancels of in-flight / matured / completed / unknown entries,
//!       partial and late drains, closed files, unsupported flags, dropped
//!       rings, crashes followed by a bounce).  mode=sim runs the consumer as
//!       the software of a one-host `turmoil::Sim` (crash = Sim::crash +
//!       Sim::bounce, AsyncFd::readable loops; with probability exitcrash% (default 50) the
//!       software first parks its handles outside the task and returns Ok(()) by itself, the
//!       host is crashed and bounced afterwards and the new incarnation keeps draining the old
//!       ring handles); stall=<ms> makes the controller
//!       thread sleep in wall-clock time between two steps.
//!   script in=<script.json> out=<trace.ndjson>
//!       executes a hand-written command list (corpus witnesses).
//!
//! The oracle for "same result and effect as the synchronous file API" is a
//! twin `Fs` driven through `turmoil_fs::shim::std::fs` with the identical
//! history: when a completion other than the cancellation error is popped for
//! a read / write / fsync on an open handle, the twin executes that operation
//! through the synchronous shim and its result / buffer / file contents are
//! recorded next to the real ones (`exp`, `expdata`, `tfiles`).  The verdict on
//! any difference is TLC's (UringPropTrace).
use rand::rngs::SmallRng;
use rand::{Rng, SeedableRng};
use serde_json::{json, Value};
use std::cell::RefCell;
use std::collections::VecDeque;
use std::os::fd::{AsRawFd, RawFd};
use std::os::unix::fs::FileExt;
use std::rc::Rc;
use std::sync::{Arc, Mutex};
use std::time::Duration;
use tokio::sync::Notify;
use turmoil_fs::shim::std::fs as sfs;
use turmoil_fs::{Fs, FsConfig};
use turmoil_io_uring::cqueue::CompletionQueue;
use turmoil_io_uring::host::{self as uhost, IoUringHostState};
use turmoil_io_uring::{opcode, squeue, types, AsyncFd, IoUring};
use vh::{rec, util};

const FILL: u8 = 9;
const ECANCELED: i32 = -125;
/// ring-clock origin used in direct mode (the embedder's `now` is "since the unix epoch")
const BASE_US: u64 = 1_700_000_000_000_000;

#[derive(Clone, Debug)]
enum Cmd {
    Ring { entries: u32 },
    /// tag = the user_data put on the entry; 0 = a fresh one (the entry's own number)
    Push { r: usize, tag: u64, kind: String, f: usize, off: u64, bytes: Vec<u8>, len: usize, tgt: u64, bad: bool },
    /// via: "submit" | "wait" (submit_and_wait) | "args" (submit_with_args, well-formed timespec) |
    /// "badargs" (submit_with_args with nsec >= 1e9: the call must fail and leave the SQ alone)
    Submit { r: usize, via: String },
    Sync { r: usize },
    Pop { r: usize },
    Tick { d: u64 },
    DropRing { r: usize },
    Close { f: usize },
    Open { f: usize, mode: String },
    ShimW { f: usize, off: u64, bytes: Vec<u8> },
    Crash,
    /// sync + pop until None, repeated until sync shows 0
    Drain { r: usize },
    /// (sim mode) AsyncFd::readable().await on the ring
    Readable { r: usize },
    /// (sim mode) the host software parks its handles outside the task and returns Ok(()) by itself
    Exit,
    /// (sim mode) spawn a reactor task that parks in AsyncFd::readable() on the ring (one shot)
    Park { r: usize },
    /// (sim mode) is the reactor of this ring still parked?
    Unpark { r: usize },
}

fn bytes_of(v: &Value) -> Vec<u8> {
    v.as_array().map(|a| a.iter().map(|x| x.as_u64().unwrap_or(0) as u8).collect()).unwrap_or_default()
}

fn parse_cmd(v: &Value) -> Option<Cmd> {
    let a = v["a"].as_str()?;
    let us = |k: &str| v[k].as_u64().unwrap_or(0) as usize;
    Some(match a {
        "ring" => Cmd::Ring { entries: us("entries") as u32 },
        "push" => Cmd::Push {
            r: us("r"),
            tag: us("tag") as u64,
            kind: v["kind"].as_str()?.to_string(),
            f: us("f"),
            off: us("off") as u64,
            bytes: bytes_of(&v["bytes"]),
            len: us("len"),
            tgt: us("tgt") as u64,
            bad: v["bad"].as_bool().unwrap_or(false),
        },
        "submit" => Cmd::Submit { r: us("r"), via: v["via"].as_str().unwrap_or("submit").to_string() },
        "submitbad" => Cmd::Submit { r: us("r"), via: "badargs".into() },
        "park" => Cmd::Park { r: us("r") },
        "unpark" => Cmd::Unpark { r: us("r") },
        "sync" => Cmd::Sync { r: us("r") },
        "pop" => Cmd::Pop { r: us("r") },
        "tick" => Cmd::Tick { d: v["d"].as_u64().unwrap_or(1) },
        "dropring" => Cmd::DropRing { r: us("r") },
        "close" => Cmd::Close { f: us("f") },
        "open" => Cmd::Open { f: us("f"), mode: v["mode"].as_str().unwrap_or("rw").to_string() },
        "shimw" => Cmd::ShimW { f: us("f"), off: us("off") as u64, bytes: bytes_of(&v["bytes"]) },
        "crash" => Cmd::Crash,
        "drain" => Cmd::Drain { r: us("r") },
        "readable" => Cmd::Readable { r: us("r") },
        _ => return None,
    })
}

#[derive(Clone)]
struct RunCfg {
    tick_us: u64,
    lat_lo: u64,
    lat_hi: u64,
    cache: bool,
    cap: Option<u64>,
    nf: usize,
    init_len: usize,
    fs_seed: u64,
}

impl RunCfg {
    fn fs_config(&self) -> FsConfig {
        let mut c = FsConfig::default();
        if self.lat_hi > 0 || self.lat_lo > 0 {
            c.io_latency()
                .min_latency(Duration::from_micros(self.lat_lo))
                .max_latency(Duration::from_micros(self.lat_hi));
        }
        if self.cache {
            c.page_cache().page_size(4).max_pages(2);
        }
        if let Some(b) = self.cap {
            c.capacity(b);
        }
        c
    }
    /// latency bounds (us) the configuration grants an entry of this kind
    fn bounds(&self, kind: &str, bad: bool) -> (u64, u64) {
        if bad || kind == "cancel" {
            (0, 0)
        } else if self.cache && kind == "read" && self.lat_hi > 0 {
            // a page-cache hit completes after 100 ns: not in the tick of the submit, any later one
            (self.lat_lo.min(1), self.lat_hi)
        } else {
            (self.lat_lo, self.lat_hi)
        }
    }
}

struct OpRec {
    kind: String,
    f: usize,
    off: u64,
    payload: Box<[u8]>,
    buf: Option<usize>, // index into the arena
    len: usize,
    bad: bool,
    gen: u64,
    hopen: bool,
    tag: u64,
    ring: usize,
    /// the consumer's own bookkeeping: "rej" | "sq" | "pend" | "done" | "lost"
    st: &'static str,
}

/// What survives a crash of the host: the consumer's bookkeeping and its buffers.
struct Persist {
    cfg: RunCfg,
    twin: Arc<Mutex<Fs>>,
    ops: Vec<OpRec>,
    arena: Vec<Box<[u8]>>,
    nrings: usize,
    fgen: Vec<u64>,
    fopen: Vec<bool>,
    fmode: Vec<String>,
    now_rel: u64,
    incarnation: u64,
}

impl Persist {
    /// the consumer's bookkeeping of a crash: every handle is gone, every queued or submitted entry is lost
    fn on_crash(&mut self) {
        for o in self.fopen.iter_mut() {
            *o = false;
        }
        for o in self.ops.iter_mut().filter(|o| o.st == "sq" || o.st == "pend") {
            o.st = "lost";
        }
    }
}

struct FileSlot {
    prim: Option<sfs::File>,
    twin: Option<sfs::File>,
    fd: RawFd,
}

/// Handles owned by the running software (lost in a crash).
struct Env {
    p: Rc<RefCell<Persist>>,
    files: Vec<FileSlot>,
    rings: Vec<Option<IoUring>>, // index = ring id - 1; None = dropped
    cqs: Vec<Option<CompletionQueue<'static>>>,
}

fn path_of(f: usize) -> String {
    format!("/d/f{f}")
}

fn with_twin<R>(twin: &Arc<Mutex<Fs>>, f: impl FnOnce() -> R) -> R {
    let _g = turmoil_fs::enter(twin, turmoil_fs::EnterCtx { now: Duration::from_micros(BASE_US), on_corruption: None });
    f()
}

fn errno_of(e: &std::io::Error) -> i32 {
    use std::io::ErrorKind as K;
    match e.kind() {
        K::InvalidInput => -22,
        K::PermissionDenied | K::NotFound => -9,
        _ => {
            if e.to_string().contains("No space") {
                -28
            } else {
                -5
            }
        }
    }
}

fn open_with(mode: &str, path: &str) -> std::io::Result<sfs::File> {
    let mut o = sfs::OpenOptions::new();
    match mode {
        "ro" => o.read(true),
        "wo" => o.write(true),
        "ao" => o.append(true),                   // append only (no write(true)): still a writable handle
        "wa" => o.write(true).append(true),
        "ra" => o.read(true).append(true),
        _ => o.read(true).write(true),
    };
    o.open(path)
}

impl Env {
    /// First incarnation: create the files on both filesystems and make them durable.
    /// Must run with the filesystem under test (and the io_uring host state) entered.
    fn setup(p: Rc<RefCell<Persist>>) -> Env {
        let (nf, init_len, twin, inc) = {
            let pp = p.borrow();
            (pp.cfg.nf, pp.cfg.init_len, pp.twin.clone(), pp.incarnation)
        };
        let mut env = Env { p: p.clone(), files: Vec::new(), rings: Vec::new(), cqs: Vec::new() };
        if inc == 0 {
            rec::emit(json!({"ev":"reset"}));
            let mk = || {
                sfs::create_dir_all("/d").unwrap();
                for f in 1..=nf {
                    let file = sfs::OpenOptions::new().read(true).write(true).create(true).open(path_of(f)).unwrap();
                    file.write_at(&vec![1u8; init_len], 0).unwrap();
                    file.sync_all().unwrap();
                    drop(file);
                }
                sfs::sync_dir("/d").unwrap();
                sfs::sync_dir("/").unwrap();
            };
            mk();
            with_twin(&twin, mk);
            for f in 1..=nf {
                let prim = open_with("rw", &path_of(f)).unwrap();
                let tw = with_twin(&twin, || open_with("rw", &path_of(f)).unwrap());
                let fd = prim.as_raw_fd();
                env.files.push(FileSlot { prim: Some(prim), twin: Some(tw), fd });
                let mut pp = p.borrow_mut();
                pp.fgen.push(1);
                pp.fopen.push(true);
                pp.fmode.push("rw".into());
                rec::emit(json!({"ev":"newfile"}));
            }
        } else {
            let pp = p.borrow();
            for _ in 1..=nf {
                env.files.push(FileSlot { prim: None, twin: None, fd: -1 });
            }
            for _ in 0..pp.nrings {
                env.rings.push(None);
                env.cqs.push(None);
            }
        }
        p.borrow_mut().incarnation += 1;
        env
    }

    fn twin(&self) -> Arc<Mutex<Fs>> {
        self.p.borrow().twin.clone()
    }

    fn read_files(&self) -> (Value, Value) {
        let nf = self.p.borrow().cfg.nf;
        let rd = || -> Vec<Value> {
            (1..=nf)
                .map(|f| match sfs::read(path_of(f)) {
                    Ok(b) => json!(b),
                    Err(e) => json!([format!("ERR {e}")]),
                })
                .collect()
        };
        let a = rd();
        let b = with_twin(&self.twin(), rd);
        (json!(a), json!(b))
    }

    /// Execute one command; returns the observation (also emitted as a trace event).
    fn exec(&mut self, c: &Cmd) -> Value {
        let ev = match c {
            Cmd::Ring { entries } => {
                let ring = IoUring::new(*entries).expect("IoUring::new");
                let depth = ring.params().sq_entries();
                self.rings.push(Some(ring));
                self.cqs.push(None);
                let mut pp = self.p.borrow_mut();
                pp.nrings += 1;
                json!({"ev":"ring","r":pp.nrings,"entries":entries,"depth":depth})
            }
            Cmd::Push { r, tag, kind, f, off, bytes, len, tgt, bad } => self.push(*r, *tag, kind, *f, *off, bytes, *len, *tgt, *bad),
            Cmd::Submit { r, via } => {
                let ring = self.rings[*r - 1].as_ref().expect("ring");
                let good = turmoil_io_uring::types::Timespec::new().sec(1).nsec(999_999_999);
                let bad = turmoil_io_uring::types::Timespec::new().nsec(1_000_000_000);
                let res = match via.as_str() {
                    "wait" => ring.submit_and_wait(1),
                    "args" => ring.submitter().submit_with_args(1, &turmoil_io_uring::types::SubmitArgs::new().timespec(&good)),
                    "badargs" => ring.submitter().submit_with_args(1, &turmoil_io_uring::types::SubmitArgs::new().timespec(&bad)),
                    _ => ring.submit(),
                };
                match res {
                    Ok(n) => {
                        for o in self.p.borrow_mut().ops.iter_mut().filter(|o| o.ring == *r && o.st == "sq") {
                            o.st = "pend";
                        }
                        json!({"ev":"submit","r":r,"ok":true,"n":n,"via":via})
                    }
                    Err(_) => json!({"ev":"submit","r":r,"ok":false,"n":0,"via":via}),
                }
            }
            Cmd::Sync { r } => {
                let ring = self.rings[*r - 1].as_ref().expect("ring");
                // a fresh handle per sync(), kept for the pops that follow (possibly ticks later)
                let mut cq: CompletionQueue<'static> = unsafe { std::mem::transmute(ring.completion_shared()) };
                cq.sync();
                let n = cq.len();
                self.cqs[*r - 1] = Some(cq);
                json!({"ev":"sync","r":r,"n":n})
            }
            Cmd::Pop { r } => self.pop(*r),
            Cmd::Tick { .. } => unreachable!("tick is executed by the runner"),
            Cmd::DropRing { r } => {
                self.cqs[*r - 1] = None;
                let ring = self.rings[*r - 1].take();
                drop(ring);
                for o in self.p.borrow_mut().ops.iter_mut().filter(|o| o.ring == *r && (o.st == "sq" || o.st == "pend")) {
                    o.st = "lost";
                }
                json!({"ev":"dropring","r":r})
            }
            Cmd::Close { f } => {
                let tw = self.twin();
                let slot = &mut self.files[*f - 1];
                drop(slot.prim.take());
                let t = slot.twin.take();
                with_twin(&tw, || drop(t));
                self.p.borrow_mut().fopen[*f - 1] = false;
                json!({"ev":"close","f":f})
            }
            Cmd::Open { f, mode } => {
                let tw = self.twin();
                let prim = open_with(mode, &path_of(*f)).expect("open");
                let t = with_twin(&tw, || open_with(mode, &path_of(*f)).expect("open twin"));
                let slot = &mut self.files[*f - 1];
                slot.fd = prim.as_raw_fd();
                slot.prim = Some(prim);
                slot.twin = Some(t);
                let mut pp = self.p.borrow_mut();
                pp.fgen[*f - 1] += 1;
                pp.fopen[*f - 1] = true;
                pp.fmode[*f - 1] = mode.clone();
                json!({"ev":"open","f":f,"mode":mode})
            }
            Cmd::ShimW { f, off, bytes } => {
                let tw = self.twin();
                let slot = &self.files[*f - 1];
                let a = slot.prim.as_ref().expect("open file").write_at(bytes, *off).map(|n| n as i64).unwrap_or(-1);
                let b = with_twin(&tw, || slot.twin.as_ref().unwrap().write_at(bytes, *off).map(|n| n as i64).unwrap_or(-1));
                let (files, tfiles) = self.read_files();
                json!({"ev":"shimw","f":f,"off":off,"bytes":bytes,"res":a,"tres":b,"files":files,"tfiles":tfiles})
            }
            Cmd::Crash | Cmd::Drain { .. } | Cmd::Readable { .. } | Cmd::Exit | Cmd::Park { .. } | Cmd::Unpark { .. } => {
                unreachable!("handled by the runner")
            }
        };
        rec::emit(ev.clone());
        ev
    }

    #[allow(clippy::too_many_arguments)]
    fn push(&mut self, r: usize, tag: u64, kind: &str, f: usize, off: u64, bytes: &[u8], len: usize, tgt: u64, bad: bool) -> Value {
        let mut pp = self.p.borrow_mut();
        let ud = pp.ops.len() as u64 + 1;
        let tag = if tag == 0 { ud } else { tag };
        let payload: Box<[u8]> = bytes.to_vec().into_boxed_slice();
        let buf = if kind == "read" {
            pp.arena.push(vec![FILL; len].into_boxed_slice());
            Some(pp.arena.len() - 1)
        } else {
            None
        };
        let fd = if f >= 1 { types::Fd(self.files[f - 1].fd) } else { types::Fd(-1) };
        let entry = match kind {
            "read" => {
                let b = &mut pp.arena[buf.unwrap()];
                opcode::Read::new(fd, b.as_mut_ptr(), len as u32).offset(off).build()
            }
            "write" => opcode::Write::new(fd, payload.as_ptr(), payload.len() as u32).offset(off).build(),
            "fsync" => opcode::Fsync::new(fd).build(),
            "cancel" => opcode::AsyncCancel::new(tgt).build(),
            k => panic!("kind {k}"),
        };
        let mut entry = entry.user_data(tag);
        if bad {
            entry = entry.flags(squeue::Flags::IO_LINK);
        }
        let (gen, hopen) = if f >= 1 { (pp.fgen[f - 1], pp.fopen[f - 1]) } else { (0, false) };
        let (llo, lhi) = pp.cfg.bounds(kind, bad);
        pp.ops.push(OpRec { kind: kind.to_string(), f, off, payload, buf, len, bad, gen, hopen, tag, ring: r, st: "rej" });
        drop(pp);
        let ring = self.rings[r - 1].as_mut().expect("ring");
        let ok = unsafe { ring.submission().push(&entry).is_ok() };
        let sq = ring.submission().len();
        if ok {
            self.p.borrow_mut().ops[ud as usize - 1].st = "sq";
        }
        json!({"ev":"push","r":r,"ud":ud,"tag":tag,"kind":kind,"f":f,"off":off,"bytes":bytes,"len":len,"tgt":tgt,
               "bad":bad,"llo":llo,"lhi":lhi,"ok":ok,"sq":sq})
    }

    fn pop(&mut self, r: usize) -> Value {
        if self.cqs[r - 1].is_none() {
            // never synced: a fresh handle (yields nothing by contract)
            let ring = self.rings[r - 1].as_ref().expect("ring");
            let cq: CompletionQueue<'static> = unsafe { std::mem::transmute(ring.completion_shared()) };
            self.cqs[r - 1] = Some(cq);
        }
        let got = self.cqs[r - 1].as_mut().unwrap().next();
        let Some(c) = got else {
            return json!({"ev":"none","r":r});
        };
        let tag = c.user_data();
        let res = c.result();
        let tw = self.twin();
        // the completion carries only the user_data: it is attributed to the lowest-numbered entry
        // with that user_data that is owed a completion on this ring (entries tagged alike are
        // copies of each other, so the twin does the same whichever of them really completed)
        let ud: u64 = {
            let mut pp = self.p.borrow_mut();
            match pp.ops.iter().position(|o| o.tag == tag && o.ring == r && o.st == "pend") {
                Some(i) => {
                    pp.ops[i].st = "done";
                    i as u64 + 1
                }
                None => 0,
            }
        };
        let mut data: Vec<u8> = Vec::new();
        let mut exp: i64 = 0;
        let mut expdata: Vec<u8> = Vec::new();
        {
            let pp = self.p.borrow();
            if ud >= 1 && (ud as usize) <= pp.ops.len() {
                let o = &pp.ops[ud as usize - 1];
                if let Some(b) = o.buf {
                    data = pp.arena[b].to_vec();
                }
                let io = matches!(o.kind.as_str(), "read" | "write" | "fsync");
                let valid = io && o.hopen && pp.fopen[o.f - 1] && pp.fgen[o.f - 1] == o.gen;
                if io && !o.bad && valid && res != ECANCELED {
                    // the same operation through the synchronous API, on the twin, now
                    let tf = self.files[o.f - 1].twin.as_ref().expect("twin handle");
                    with_twin(&tw, || match o.kind.as_str() {
                        "read" => {
                            let mut tb = vec![FILL; o.len];
                            exp = match tf.read_at(&mut tb, o.off) {
                                Ok(n) => n as i64,
                                Err(e) => {
                                    tb = vec![FILL; o.len];
                                    errno_of(&e) as i64
                                }
                            };
                            expdata = tb;
                        }
                        "write" => {
                            exp = match tf.write_at(&o.payload, o.off) {
                                Ok(n) => n as i64,
                                Err(e) => errno_of(&e) as i64,
                            };
                        }
                        _ => {
                            exp = match tf.sync_all() {
                                Ok(()) => 0,
                                Err(e) => errno_of(&e) as i64,
                            };
                        }
                    });
                }
            }
        }
        let (files, tfiles) = self.read_files();
        json!({"ev":"cqe","r":r,"tag":tag,"ud":ud,"res":res,"data":data,"exp":exp,"expdata":expdata,"files":files,"tfiles":tfiles})
    }

    fn pop_ev(&mut self, r: usize) -> Value {
        let ev = self.pop(r);
        rec::emit(ev.clone());
        ev
    }

    /// sync + pop until None, repeated until sync() shows 0 (or no progress)
    fn drain(&mut self, r: usize) {
        for _ in 0..64 {
            let s = self.exec(&Cmd::Sync { r });
            if s["n"].as_u64().unwrap_or(0) == 0 {
                break;
            }
            let mut got = 0;
            for _ in 0..256 {
                let e = self.pop_ev(r);
                if e["ev"] == "none" {
                    break;
                }
                got += 1;
            }
            if got == 0 {
                break;
            }
        }
    }

    fn alive_rings(&self) -> Vec<usize> {
        (1..=self.rings.len()).filter(|r| self.rings[*r - 1].is_some()).collect()
    }

    /// Drop the handles the way a crash does: nothing entered, so the drops do not reach the
    /// filesystems / the ring registry.  Ring handles are returned (a direct-mode consumer
    /// may still poke them).
    fn take_rings(&mut self) -> Vec<Option<IoUring>> {
        self.cqs.iter_mut().for_each(|c| *c = None);
        std::mem::take(&mut self.rings)
    }

    fn end_event(&self) -> Value {
        let pp = self.p.borrow();
        let bufs: Vec<Value> = pp
            .ops
            .iter()
            .enumerate()
            .filter_map(|(i, o)| o.buf.map(|b| json!({"ud": i + 1, "data": pp.arena[b].to_vec()})))
            .collect();
        drop(pp);
        let (files, tfiles) = self.read_files();
        json!({"ev":"end","bufs":bufs,"files":files,"tfiles":tfiles})
    }

    /// Orderly shutdown of the handles (everything entered).
    fn close_all(&mut self) {
        let tw = self.twin();
        self.cqs.clear();
        self.rings.clear();
        for s in self.files.iter_mut() {
            drop(s.prim.take());
            let t = s.twin.take();
            with_twin(&tw, || drop(t));
        }
    }
}

fn new_persist(cfg: &RunCfg) -> Rc<RefCell<Persist>> {
    Rc::new(RefCell::new(Persist {
        cfg: cfg.clone(),
        twin: Arc::new(Mutex::new(Fs::new(cfg.fs_config(), cfg.fs_seed))),
        ops: Vec::new(),
        arena: Vec::new(),
        nrings: 0,
        fgen: Vec::new(),
        fopen: Vec::new(),
        fmode: Vec::new(),
        now_rel: 0,
        incarnation: 0,
    }))
}

// ---------------------------------------------------------------------------------------------
// direct mode: the driver is the embedder

struct Direct {
    fs: Arc<Mutex<Fs>>,
    iou: Arc<Mutex<IoUringHostState>>,
    p: Rc<RefCell<Persist>>,
    env: Option<Env>,
}

impl Direct {
    fn new(cfg: &RunCfg) -> Direct {
        let fs = Arc::new(Mutex::new(Fs::new(cfg.fs_config(), cfg.fs_seed)));
        let iou = Arc::new(Mutex::new(IoUringHostState::new()));
        let p = new_persist(cfg);
        let mut d = Direct { fs, iou, p: p.clone(), env: None };
        let env = d.entered(|| Env::setup(p));
        d.env = Some(env);
        d
    }

    fn entered<R>(&self, f: impl FnOnce() -> R) -> R {
        let now = Duration::from_micros(BASE_US + self.p.borrow().now_rel);
        let _a = turmoil_fs::enter(&self.fs, turmoil_fs::EnterCtx { now, on_corruption: None });
        let _b = uhost::enter(&self.iou, uhost::EnterCtx { now });
        f()
    }

    fn tick(&mut self, d: u64) -> Value {
        let mut pp = self.p.borrow_mut();
        pp.now_rel += d * pp.cfg.tick_us;
        let ev = json!({"ev":"tick","now":pp.now_rel});
        rec::emit(ev.clone());
        ev
    }

    fn crash(&mut self) -> Value {
        // Sim::crash: the software is dropped with nothing entered, then Fs::crash, then
        // IoUringHostState::crash.  The ring handles are kept as zombies (positions preserved).
        let mut env = self.env.take().unwrap();
        let zombies = env.take_rings();
        let twin = env.twin();
        drop(env); // files (both sides) dropped un-entered: the drops reach no filesystem
        self.fs.lock().unwrap_or_else(|e| e.into_inner()).crash();
        self.iou.lock().unwrap_or_else(|e| e.into_inner()).crash();
        twin.lock().unwrap_or_else(|e| e.into_inner()).crash();
        self.p.borrow_mut().on_crash();
        let p = self.p.clone();
        let mut env = self.entered(|| Env::setup(p));
        env.rings = zombies;
        env.cqs = env.rings.iter().map(|_| None).collect();
        let (files, tfiles) = self.entered(|| env.read_files());
        self.env = Some(env);
        let ev = json!({"ev":"crash","files":files,"tfiles":tfiles});
        rec::emit(ev.clone());
        ev
    }

    fn step(&mut self, c: &Cmd) -> Value {
        match c {
            Cmd::Tick { d } => self.tick(*d),
            Cmd::Crash => self.crash(),
            Cmd::Drain { r } => {
                let mut env = self.env.take().unwrap();
                self.entered(|| env.drain(*r));
                self.env = Some(env);
                json!({"ev":"drained"})
            }
            Cmd::Readable { .. } | Cmd::Exit | Cmd::Park { .. } | Cmd::Unpark { .. } => json!({"ev":"note"}),
            Cmd::Pop { r } => {
                let mut env = self.env.take().unwrap();
                let v = self.entered(|| env.pop_ev(*r));
                self.env = Some(env);
                v
            }
            _ => {
                let mut env = self.env.take().unwrap();
                let v = self.entered(|| env.exec(c));
                self.env = Some(env);
                v
            }
        }
    }

    /// The driver's own end phase: let every latency elapse, drain every live ring, report
    /// the buffers.
    fn finish(&mut self) {
        let (tick_us, lat_hi) = {
            let pp = self.p.borrow();
            (pp.cfg.tick_us, pp.cfg.lat_hi)
        };
        self.tick(lat_hi.div_ceil(tick_us) + 1);
        let mut env = self.env.take().unwrap();
        self.entered(|| {
            for r in env.alive_rings() {
                // a ring wiped by a crash is still a handle: sync() shows 0
                env.drain(r);
            }
        });
        self.env = Some(env);
        // a final crash: what the run made durable (ring fsyncs included) is compared with the twin's
        // crash image; the wiped rings must stay silent
        self.crash();
        let mut env = self.env.take().unwrap();
        self.entered(|| {
            for r in env.alive_rings() {
                env.drain(r);
            }
            rec::emit(env.end_event());
            env.close_all();
        });
    }
}

// ---------------------------------------------------------------------------------------------
// replay of TLC behaviours

fn same(a: &Value, b: &Value) -> bool {
    a == b
}

/// Compare the observation `obs` of command `cmd` with TLC's prediction `pred`.
/// Returns Err(field) on a difference; Ok(false) if an ambiguous pop chose another entry.
fn compare(pred: &Value, obs: &Value) -> Result<bool, String> {
    if pred["nopred"] == true {
        return Ok(true);
    }
    let a = pred["a"].as_str().unwrap_or("");
    match a {
        "ring" => {
            if pred["depth"] != obs["depth"] {
                return Err("depth".into());
            }
        }
        "push" => {
            if pred["ok"] != obs["ok"] {
                return Err("ok".into());
            }
            if pred["ud"] != obs["ud"] {
                return Err("ud".into());
            }
        }
        "submit" | "sync" => {
            if pred["n"] != obs["n"] {
                return Err("n".into());
            }
        }
        "submitbad" => {
            if obs["ok"] != false {
                return Err("ok".into());
            }
        }
        "pop" => {
            let some = pred["some"].as_bool().unwrap_or(false);
            if some != (obs["ev"] == "cqe") {
                return Err("some".into());
            }
            if some {
                if pred["tag"] != obs["tag"] {
                    if pred["amb"].as_bool().unwrap_or(false) {
                        return Ok(false);
                    }
                    return Err("tag".into());
                }
                for k in ["res", "data", "files"] {
                    if !same(&pred[k], &obs[k]) {
                        if pred["damb"].as_bool().unwrap_or(false) {
                            return Ok(false); // another entry with the same user_data came first
                        }
                        return Err(k.into());
                    }
                }
            }
        }
        "shimw" | "crash" => {
            if !same(&pred["files"], &obs["files"]) {
                return Err("files".into());
            }
        }
        _ => {}
    }
    Ok(true)
}

fn run_behaviour(beh: &[Value], cfg: &RunCfg) -> (Result<bool, (usize, String, Value)>, Vec<Value>) {
    rec::take();
    let mut d = Direct::new(cfg);
    let mut outcome: Result<bool, (usize, String, Value)> = Ok(true);
    // After a submit in which a cancel had several identically tagged entries to choose from, the
    // model has one branch per choice while the code makes exactly one: a later mismatch then means
    // "this branch is not the one the code takes" (its siblings are in the behaviour set too; the
    // caller checks that at least one branch of every command sequence is realised).
    let mut tainted = false;
    for (i, step) in beh.iter().enumerate() {
        let Some(cmd) = parse_cmd(step) else { continue };
        let obs = d.step(&cmd);
        if step["camb"] == true {
            tainted = true;
        }
        match compare(step, &obs) {
            Ok(true) => {}
            Ok(false) => {
                outcome = Ok(false);
                break;
            }
            Err(_) if tainted => {
                outcome = Ok(false);
                break;
            }
            Err(what) => {
                outcome = Err((i, what, obs));
                break;
            }
        }
    }
    if !matches!(outcome, Ok(false)) {
        d.finish();
    } else if let Some(mut env) = d.env.take() {
        d.entered(|| env.close_all());
    }
    (outcome, rec::take())
}

/// The consumer's commands of a behaviour without TLC's predictions (identifies the command sequence).
fn command_key(beh: &[Value]) -> u64 {
    use std::hash::{Hash, Hasher};
    let mut h = std::collections::hash_map::DefaultHasher::new();
    for s in beh {
        for k in ["a", "r", "entries", "tag", "kind", "f", "off", "bytes", "len", "tgt", "bad", "mode", "d"] {
            if k == "tag" && s["a"] != "push" {
                continue; // the user_data of a popped completion is an observation, not a command
            }
            if let Some(v) = s.get(k) {
                k.hash(&mut h);
                v.to_string().hash(&mut h);
            }
        }
        0u8.hash(&mut h);
    }
    h.finish()
}

fn replay(args: &[String]) {
    let inp = util::arg(args, "in").expect("in=");
    let out = util::arg(args, "out").expect("out=");
    let traces = util::arg(args, "traces").unwrap_or_else(|| ".".into());
    let sample = util::arg_u64(args, "sample", 0) as usize;
    let seeds = util::arg_u64(args, "seeds", 24);
    let lat = util::arg_u64(args, "lat", 0);
    let base = RunCfg {
        tick_us: util::arg_u64(args, "tick", 1),
        lat_lo: lat,
        lat_hi: lat,
        cache: false,
        cap: None,
        nf: util::arg_u64(args, "nf", 1) as usize,
        init_len: util::arg_u64(args, "initlen", 1) as usize,
        fs_seed: 1,
    };
    let text = std::fs::read_to_string(&inp).expect("read behaviours");
    let (mut n, mut realised, mut unrealised, mut divergent, mut nontrivial, mut panics) = (0u64, 0u64, 0u64, 0u64, 0u64, 0u64);
    let mut divergences: Vec<Value> = Vec::new();
    let mut samples: Vec<Value> = Vec::new();
    let mut sample_trace: Vec<Value> = Vec::new();
    let mut sampled = 0usize;
    let mut branches: std::collections::HashMap<u64, (bool, usize)> = std::collections::HashMap::new();
    for (line_no, line) in text.lines().enumerate() {
        if line.trim().is_empty() {
            continue;
        }
        let beh: Vec<Value> = serde_json::from_str(line).expect("behaviour json");
        n += 1;
        let nt = beh.iter().any(|s| matches!(s["a"].as_str(), Some("crash" | "dropring" | "close" | "shimw")) || s["kind"] == "cancel")
            && beh.iter().any(|s| s["a"] == "pop" && s["some"] == true);
        if nt {
            nontrivial += 1;
        }
        let key = command_key(&beh);
        let mut done = false;
        for s in 0..seeds {
            let cfg = RunCfg { fs_seed: 1 + s, ..base.clone() };
            let r = util::catch(|| run_behaviour(&beh, &cfg));
            match r {
                Err(msg) => {
                    panics += 1;
                    divergent += 1;
                    let tr = rec::take();
                    let tp = format!("{traces}/div-{}.ndjson", divergences.len());
                    util::write_ndjson(&tp, &tr);
                    divergences.push(json!({"line":line_no,"what":"panic","message":msg,"behaviour":beh,"trace":tp,"fs_seed":cfg.fs_seed}));
                    done = true;
                    break;
                }
                Ok((Ok(true), tr)) => {
                    realised += 1;
                    if sampled < sample {
                        sampled += 1;
                        sample_trace.extend(tr);
                    }
                    if samples.len() < 2 && nt {
                        samples.push(json!({"behaviour": beh}));
                    }
                    done = true;
                    break;
                }
                Ok((Ok(false), _)) => continue,
                Ok((Err((i, what, obs)), tr)) => {
                    divergent += 1;
                    if divergences.len() < 40 {
                        let tp = format!("{traces}/div-{}.ndjson", divergences.len());
                        util::write_ndjson(&tp, &tr);
                        divergences.push(json!({"line":line_no,"what":what,"step":i,"predicted":beh[i],"observed":obs,
                                                "behaviour":beh,"trace":tp,"fs_seed":cfg.fs_seed}));
                    }
                    done = true;
                    break;
                }
            }
        }
        if !done {
            unrealised += 1;
            branches.entry(key).or_insert((false, line_no));
        } else {
            branches.entry(key).or_insert((true, line_no)).0 = true;
        }
    }
    // every command sequence must have a branch the code realises
    let text_lines: Vec<&str> = text.lines().collect();
    let mut orphan_keys = 0u64;
    for (_, (ok, line_no)) in branches.iter() {
        if *ok {
            continue;
        }
        orphan_keys += 1;
        divergent += 1;
        if divergences.len() < 40 {
            let beh: Vec<Value> = serde_json::from_str(text_lines[*line_no]).expect("behaviour json");
            let cfg = RunCfg { fs_seed: 1, ..base.clone() };
            // record what the code does on these commands (predictions ignored)
            let cmds: Vec<Value> = beh.iter().map(|s| { let mut c = s.clone(); if let Some(o) = c.as_object_mut() { o.remove("camb"); o.insert("nopred".into(), json!(true)); } c }).collect();
            let tr = util::catch(|| run_behaviour(&cmds, &cfg)).map(|(_, t)| t).unwrap_or_default();
            let tp = format!("{traces}/div-{}.ndjson", divergences.len());
            util::write_ndjson(&tp, &tr);
            divergences.push(json!({"line":line_no,"what":"no branch of the model matches the code on this command sequence",
                                    "behaviour":beh,"trace":tp,"fs_seed":1}));
        }
    }
    if sample > 0 {
        util::write_ndjson(&format!("{traces}/sample.ndjson"), &sample_trace);
    }
    let summary = json!({"behaviours":n,"realised":realised,"unrealised":unrealised,"divergent":divergent,
                         "nontrivial":nontrivial,"panics":panics,"sampled":sampled,"orphan_sequences":orphan_keys,
                         "divergences":divergences,"samples":samples});
    std::fs::write(&out, serde_json::to_string(&summary).unwrap()).expect("write summary");
    println!("behaviours={n} realised={realised} unrealised={unrealised} divergent={divergent} nontrivial={nontrivial}");
}

// ---------------------------------------------------------------------------------------------
// random scenarios

/// Guidance only (which commands are worth issuing); never used as an oracle.
#[derive(Default)]
struct Shadow {
    rings: Vec<bool>,       // alive?
    zombie: Vec<bool>,      // wiped by a crash, handle still held
    sq: Vec<usize>,         // entries queued
    depth: Vec<usize>,
    outstanding: Vec<(u64, usize)>, // (ud, ring) believed outstanding
    completed: Vec<u64>,
    next_ud: u64,
    fopen: Vec<bool>,
    fwritable: Vec<bool>,
    fgen: Vec<u64>,
    /// accepted write / fsync pushes: (the command with its user_data filled in, handle generation)
    pushed: Vec<(Cmd, u64)>,
}

fn gen_cmd(rng: &mut SmallRng, sh: &Shadow, cfg: &RunCfg, allow_crash: bool, sim: bool) -> Cmd {
    let alive: Vec<usize> = (1..=sh.rings.len()).filter(|r| sh.rings[*r - 1]).collect();
    let held: Vec<usize> = (1..=sh.rings.len()).filter(|r| sh.rings[*r - 1] || sh.zombie[*r - 1]).collect();
    if alive.is_empty() || (sh.rings.len() < 5 && alive.len() < 3 && rng.random_range(0..30) == 0) {
        return Cmd::Ring { entries: [1u32, 2, 2, 3, 4, 8][rng.random_range(0..6)] };
    }
    let r = alive[rng.random_range(0..alive.len())];
    let full = sh.sq[r - 1] >= sh.depth[r - 1];
    let x = rng.random_range(0..1000);
    if full && x < 300 && rng.random_range(0..5) != 0 {
        return Cmd::Submit { r, via: "submit".into() };
    }
    if x < 300 {
        // push
        let k = rng.random_range(0..100);
        let f = rng.random_range(1..=cfg.nf);
        let bad = rng.random_range(0..14) == 0;
        // a copy of an outstanding write / fsync of this ring under the same user_data
        let dups: Vec<&(Cmd, u64)> = sh
            .pushed
            .iter()
            .filter(|(c, g)| match c {
                Cmd::Push { r: rr, tag, f, .. } => {
                    *rr == r && sh.fopen[*f - 1] && sh.fgen[*f - 1] == *g && sh.outstanding.iter().any(|(t, r2)| t == tag && *r2 == r)
                }
                _ => false,
            })
            .collect();
        if !dups.is_empty() && rng.random_range(0..100) < 22 {
            return dups[rng.random_range(0..dups.len())].0.clone();
        }
        if sh.fopen[f - 1] && !sh.fwritable[f - 1] && rng.random_range(0..2) == 0 {
            // fsync through a read-only handle: it flushes the file, whoever wrote it
            return Cmd::Push { r, tag: 0, kind: "fsync".into(), f, off: 0, bytes: vec![], len: 0, tgt: 0, bad: false };
        }
        if k < 30 {
            let n = rng.random_range(1..=4);
            let v = rng.random_range(2..=7u8);
            let bytes: Vec<u8> = (0..n).map(|_| if rng.random_range(0..3) == 0 { v + 1 } else { v }).collect();
            Cmd::Push { r, tag: 0, kind: "write".into(), f, off: rng.random_range(0..6), bytes, len: 0, tgt: 0, bad }
        } else if k < 55 {
            Cmd::Push { r, tag: 0, kind: "read".into(), f, off: rng.random_range(0..6), bytes: vec![], len: rng.random_range(1..=5), tgt: 0, bad }
        } else if k < 66 {
            Cmd::Push { r, tag: 0, kind: "fsync".into(), f, off: 0, bytes: vec![], len: 0, tgt: 0, bad }
        } else {
            let t = rng.random_range(0..100);
            let mine: Vec<u64> = sh.outstanding.iter().filter(|(_, rr)| *rr == r).map(|(u, _)| *u).collect();
            let tgt = if t < 60 && !mine.is_empty() {
                mine[rng.random_range(0..mine.len())]
            } else if t < 68 && !sh.outstanding.is_empty() {
                sh.outstanding[rng.random_range(0..sh.outstanding.len())].0 // possibly on another ring
            } else if t < 80 && !sh.completed.is_empty() {
                sh.completed[rng.random_range(0..sh.completed.len())]
            } else if t < 92 {
                sh.next_ud + rng.random_range(0..3) // itself / a later entry
            } else {
                9999
            };
            Cmd::Push { r, tag: 0, kind: "cancel".into(), f: 0, off: 0, bytes: vec![], len: 0, tgt, bad: rng.random_range(0..25) == 0 }
        }
    } else if x < 420 {
        // every submit entry point, incl. the error path of submit_with_args (then usually a retry)
        let via = ["submit", "submit", "submit", "submit", "submit", "submit", "wait", "args", "badargs", "badargs"][rng.random_range(0..10)];
        Cmd::Submit { r, via: via.into() }
    } else if x < 540 {
        Cmd::Sync { r: held[rng.random_range(0..held.len())] }
    } else if x < 760 {
        Cmd::Pop { r: held[rng.random_range(0..held.len())] }
    } else if x < 870 {
        Cmd::Tick { d: [1u64, 1, 1, 2, 3][rng.random_range(0..5)] }
    } else if x < 900 {
        Cmd::Drain { r }
    } else if x < 920 {
        let f = rng.random_range(1..=cfg.nf);
        if sh.fopen[f - 1] {
            Cmd::Close { f }
        } else {
            Cmd::Open { f, mode: ["rw", "rw", "rw", "ro", "wo", "ao", "ao", "wa", "ra"][rng.random_range(0..9)].into() }
        }
    } else if x < 955 {
        let f = rng.random_range(1..=cfg.nf);
        if sh.fopen[f - 1] && !sh.fwritable[f - 1] {
            Cmd::Close { f }
        } else if sh.fopen[f - 1] {
            let v = rng.random_range(2..=7u8);
            Cmd::ShimW { f, off: rng.random_range(0..5), bytes: vec![v; rng.random_range(1..=3)] }
        } else {
            Cmd::Open { f, mode: "rw".into() }
        }
    } else if x < 968 {
        let r = held[rng.random_range(0..held.len())];
        Cmd::DropRing { r }
    } else if x < 990 {
        if sim {
            Cmd::Readable { r }
        } else {
            Cmd::Drain { r }
        }
    } else if allow_crash {
        Cmd::Crash
    } else {
        Cmd::Tick { d: 1 }
    }
}

fn shadow_update(sh: &mut Shadow, c: &Cmd, obs: &Value) {
    match c {
        Cmd::Ring { .. } => {
            sh.rings.push(true);
            sh.zombie.push(false);
            sh.sq.push(0);
            sh.depth.push(obs["depth"].as_u64().unwrap_or(1) as usize);
        }
        Cmd::Push { r, tag, kind, f, bad, .. } => {
            sh.next_ud += 1;
            let t = if *tag == 0 { sh.next_ud } else { *tag };
            if obs["ok"] == true {
                sh.sq[*r - 1] += 1;
                sh.outstanding.push((t, *r));
                if *tag == 0 && !*bad && (kind == "write" || kind == "fsync") {
                    let mut c2 = c.clone();
                    if let Cmd::Push { tag, .. } = &mut c2 {
                        *tag = t;
                    }
                    sh.pushed.push((c2, sh.fgen[*f - 1]));
                }
            }
        }
        Cmd::Submit { r, via } => {
            if via != "badargs" {
                sh.sq[*r - 1] = 0;
            }
        }
        Cmd::DropRing { r } => {
            sh.rings[*r - 1] = false;
            sh.zombie[*r - 1] = false;
            sh.outstanding.retain(|(_, rr)| rr != r);
        }
        Cmd::Close { f } => sh.fopen[*f - 1] = false,
        Cmd::Open { f, mode } => {
            sh.fgen[*f - 1] += 1;
            sh.fopen[*f - 1] = true;
            sh.fwritable[*f - 1] = mode != "ro";
        }
        Cmd::Crash => {
            for i in 0..sh.rings.len() {
                if sh.rings[i] {
                    sh.rings[i] = false;
                    sh.zombie[i] = true;
                }
                sh.sq[i] = 0;
            }
            sh.outstanding.clear();
            for o in sh.fopen.iter_mut() {
                *o = false;
            }
        }
        _ => {}
    }
}

fn shadow_cqe(sh: &mut Shadow, ud: u64) {
    if let Some(i) = sh.outstanding.iter().position(|(u, _)| *u == ud) {
        sh.outstanding.remove(i);
    }
    sh.completed.push(ud);
}

fn random_direct(rng: &mut SmallRng, cfg: &RunCfg, steps: usize) {
    let mut d = Direct::new(cfg);
    let mut sh = Shadow { next_ud: 0, fopen: vec![true; cfg.nf], fwritable: vec![true; cfg.nf], fgen: vec![1; cfg.nf], ..Default::default() };
    let mut crashes = 0;
    for _ in 0..steps {
        let c = gen_cmd(rng, &sh, cfg, crashes < 2, false);
        // the consumer drops the handles of wiped rings only via DropRing; zombies accept sync / pop only
        let obs = d.step(&c);
        shadow_update(&mut sh, &c, &obs);
        if matches!(c, Cmd::Crash) {
            crashes += 1;
        }
        if obs["ev"] == "cqe" {
            shadow_cqe(&mut sh, obs["tag"].as_u64().unwrap_or(0));
        }
        if let Cmd::Drain { r } = &c {
            sh.outstanding.retain(|(_, rr)| rr != r); // approximately
        }
    }
    d.finish();
}

// ---------------------------------------------------------------------------------------------
// sim mode: the consumer is the software of a one-host turmoil::Sim

struct SimShared {
    cmds: VecDeque<Cmd>,
    results: VecDeque<Value>,
    busy: bool,     // the puppet is inside a multi-step command (readable)
    finish: bool,   // run the end phase
    finished: bool,
}

type Park = Rc<RefCell<Option<Env>>>;

async fn puppet(p: Rc<RefCell<Persist>>, sh: Rc<RefCell<SimShared>>, notify: Rc<Notify>, park: Park) -> turmoil::Result {
    let mut env = Env::setup(p.clone());
    if let Some(mut old) = park.borrow_mut().take() {
        // The previous incarnation had returned by itself before the crash and had parked its
        // handles outside the task: the ring handles survive as zombies (the consumer may still
        // sync / pop / drop them); the file handles are leaked, exactly as if a forgotten clone
        // kept them open, so nothing closes the fds behind an operation that was in flight.
        env.rings = old.take_rings();
        env.cqs = env.rings.iter().map(|_| None).collect();
        for s in old.files.drain(..) {
            std::mem::forget(s.prim);
            std::mem::forget(s.twin);
        }
    }
    if p.borrow().incarnation > 1 {
        // first poll after a bounce: report what the crash left
        let (files, tfiles) = env.read_files();
        let ev = json!({"ev":"crash","files":files,"tfiles":tfiles});
        rec::emit(ev.clone());
        sh.borrow_mut().results.push_back(ev);
    }
    // rings with a reactor task currently parked in AsyncFd::readable()
    let reactors: Rc<RefCell<std::collections::HashSet<usize>>> = Rc::new(RefCell::new(Default::default()));
    loop {
        notify.notified().await;
        loop {
            let c = sh.borrow_mut().cmds.pop_front();
            let Some(c) = c else { break };
            let v = match &c {
                Cmd::Park { r } => {
                    let fd = env.rings[*r - 1].as_ref().expect("ring").as_raw_fd();
                    match AsyncFd::new(FdOnly(fd)) {
                        Ok(afd) if !reactors.borrow().contains(r) => {
                            reactors.borrow_mut().insert(*r);
                            let (st, r2) = (reactors.clone(), *r);
                            tokio::task::spawn_local(async move {
                                let ok = afd.readable().await.is_ok();
                                st.borrow_mut().remove(&r2);
                                if ok {
                                    rec::emit(json!({"ev":"readable","r":r2,"ok":true,"grace":0,"parked":true}));
                                }
                            });
                            let ev = json!({"ev":"note","what":"park","r":r});
                            rec::emit(ev.clone());
                            ev
                        }
                        _ => json!({"ev":"note"}),
                    }
                }
                Cmd::Unpark { r } => {
                    if reactors.borrow().contains(r) {
                        // still parked although the consumer waited lat_hi + 2 ticks since its last submit
                        let grace = p.borrow().cfg.tick_us;
                        let ev = json!({"ev":"readable","r":r,"ok":false,"grace":grace,"parked":true});
                        rec::emit(ev.clone());
                        ev
                    } else {
                        json!({"ev":"note"})
                    }
                }
                Cmd::Pop { r } => env.pop_ev(*r),
                Cmd::Drain { r } => {
                    env.drain(*r);
                    json!({"ev":"drained"})
                }
                Cmd::Readable { r } => {
                    sh.borrow_mut().busy = true;
                    let fd = env.rings[*r - 1].as_ref().expect("ring").as_raw_fd();
                    let afd = AsyncFd::new(FdOnly(fd)).expect("AsyncFd");
                    let t0 = turmoil::elapsed();
                    let limit = {
                        let pp = p.borrow();
                        Duration::from_micros(pp.cfg.lat_hi + 2 * pp.cfg.tick_us)
                    };
                    let ok = matches!(tokio::time::timeout(limit, afd.readable()).await, Ok(Ok(_)));
                    let ev = json!({"ev":"readable","r":r,"ok":ok,"grace":0,"from":t0.as_micros() as u64,"to":turmoil::elapsed().as_micros() as u64});
                    rec::emit(ev.clone());
                    sh.borrow_mut().busy = false;
                    ev
                }
                Cmd::Exit => {
                    rec::emit(json!({"ev":"note","what":"exit"}));
                    *park.borrow_mut() = Some(env);
                    return Ok(());
                }
                _ => env.exec(&c),
            };
            sh.borrow_mut().results.push_back(v);
            if sh.borrow().busy {
                break;
            }
        }
        if sh.borrow().finish && !sh.borrow().finished {
            for r in env.alive_rings() {
                env.drain(r);
            }
            rec::emit(env.end_event());
            env.close_all();
            sh.borrow_mut().finished = true;
        }
    }
}

struct FdOnly(RawFd);
impl AsRawFd for FdOnly {
    fn as_raw_fd(&self) -> RawFd {
        self.0
    }
}

fn random_sim(rng: &mut SmallRng, cfg: &RunCfg, steps: usize, stall_ms: u64, exit_pct: u64) {
    let mut b = turmoil::Builder::new();
    b.tick_duration(Duration::from_micros(cfg.tick_us))
        .simulation_duration(Duration::from_secs(36000))
        .rng_seed(cfg.fs_seed);
    {
        let f = b.fs();
        if cfg.lat_hi > 0 || cfg.lat_lo > 0 {
            f.io_latency().min_latency(Duration::from_micros(cfg.lat_lo)).max_latency(Duration::from_micros(cfg.lat_hi));
        }
        if cfg.cache {
            f.page_cache().page_size(4).max_pages(2);
        }
    }
    let mut sim = b.build();
    let p = new_persist(cfg);
    let sh = Rc::new(RefCell::new(SimShared { cmds: VecDeque::new(), results: VecDeque::new(), busy: false, finish: false, finished: false }));
    let notify = Rc::new(Notify::new());
    let park: Park = Rc::new(RefCell::new(None));
    {
        let (p, sh, notify, park) = (p.clone(), sh.clone(), notify.clone(), park.clone());
        sim.host("h", move || puppet(p.clone(), sh.clone(), notify.clone(), park.clone()));
    }
    // warm-up step: the software creates its files and parks on the Notify
    sim.step().expect("warm-up");
    let mut k: u64 = 0; // steps since the warm-up; ring clock = k * tick
    let mut shd = Shadow { next_ud: 0, fopen: vec![true; cfg.nf], fwritable: vec![true; cfg.nf], fgen: vec![1; cfg.nf], ..Default::default() };
    let mut crashes = 0;
    let mut stalled = false;
    let mut step = |sim: &mut turmoil::Sim<'_>, k: &mut u64, sh: &Rc<RefCell<SimShared>>| {
        *k += 1;
        let now = *k * cfg.tick_us;
        p.borrow_mut().now_rel = now;
        rec::emit(json!({"ev":"tick","now":now}));
        notify.notify_one();
        sim.step().expect("step");
        let _ = sh;
    };
    let mut i = 0;
    let mut episodes = 0;
    while i < steps {
        // A reactor episode: a task parks in AsyncFd::readable() on a quiet ring *before* the next
        // submissions are made; the consumer then submits a small batch (half of the time only
        // AsyncCancels whose target is no longer in the ring), touches nothing for lat_hi + 2 ticks,
        // and looks whether the reactor was woken.
        let alive_now: Vec<usize> = (1..=shd.rings.len()).filter(|r| shd.rings[*r - 1]).collect();
        if episodes < 2 && i > 8 && !alive_now.is_empty() && rng.random_range(0..10) == 0 {
            episodes += 1;
            i += 8;
            let r = alive_now[rng.random_range(0..alive_now.len())];
            let wait = cfg.lat_hi.div_ceil(cfg.tick_us) + 2;
            let mut run = |cmds: Vec<Cmd>, shd: &mut Shadow, k: &mut u64, sim: &mut turmoil::Sim<'_>| {
                for c in &cmds {
                    match c {
                        Cmd::Push { r, .. } => {
                            let full = shd.sq[*r - 1] >= shd.depth[*r - 1];
                            shadow_update(shd, c, &json!({"ok": !full}));
                        }
                        Cmd::Drain { r } => shd.outstanding.retain(|(_, rr)| rr != r),
                        _ => shadow_update(shd, c, &json!({})),
                    }
                }
                sh.borrow_mut().cmds.extend(cmds);
                step(sim, k, &sh);
                let res: Vec<Value> = sh.borrow_mut().results.drain(..).collect();
                for v in res {
                    if v["ev"] == "cqe" {
                        shadow_cqe(shd, v["tag"].as_u64().unwrap_or(0));
                    }
                }
            };
            run(vec![Cmd::Submit { r, via: "submit".into() }], &mut shd, &mut k, &mut sim);
            for _ in 0..wait {
                run(vec![], &mut shd, &mut k, &mut sim);
            }
            run(vec![Cmd::Drain { r }, Cmd::Park { r }], &mut shd, &mut k, &mut sim);
            run(vec![], &mut shd, &mut k, &mut sim);
            let mut batch: Vec<Cmd> = Vec::new();
            let cancel_only = rng.random_range(0..2) == 0;
            let n = rng.random_range(1..=2usize).min(shd.depth[r - 1].max(1));
            for _ in 0..n {
                let gone = if !shd.completed.is_empty() && rng.random_range(0..2) == 0 {
                    shd.completed[rng.random_range(0..shd.completed.len())]
                } else {
                    9999
                };
                let f = rng.random_range(1..=cfg.nf);
                if cancel_only || rng.random_range(0..3) == 0 || !shd.fopen[f - 1] {
                    batch.push(Cmd::Push { r, tag: 0, kind: "cancel".into(), f: 0, off: 0, bytes: vec![], len: 0, tgt: gone, bad: false });
                } else {
                    batch.push(Cmd::Push { r, tag: 0, kind: "fsync".into(), f, off: 0, bytes: vec![], len: 0, tgt: 0, bad: false });
                }
            }
            batch.push(Cmd::Submit { r, via: "submit".into() });
            run(batch, &mut shd, &mut k, &mut sim);
            for _ in 0..wait {
                run(vec![], &mut shd, &mut k, &mut sim);
            }
            run(vec![Cmd::Unpark { r }], &mut shd, &mut k, &mut sim);
            continue;
        }
        // the commands of one tick
        let burst = rng.random_range(1..=5);
        let mut issued: Vec<Cmd> = Vec::new();
        let mut crash_now = false;
        for _ in 0..burst {
            let c = gen_cmd(rng, &shd, cfg, crashes < 2, true);
            i += 1;
            match c {
                Cmd::Tick { .. } => break,
                Cmd::Crash => {
                    crash_now = true;
                    break;
                }
                Cmd::DropRing { r } if !shd.rings[r - 1] => continue,
                c => {
                    // keep the guidance in step with what will be executed (results are read after the step)
                    let readable = matches!(c, Cmd::Readable { .. });
                    issued.push(c);
                    if readable {
                        break;
                    }
                    // pushes change the guidance immediately (ud numbering)
                    if let Some(Cmd::Push { r, .. }) = issued.last() {
                        let full = shd.sq[*r - 1] >= shd.depth[*r - 1];
                        shadow_update(&mut shd, issued.last().unwrap(), &json!({"ok": !full}));
                    } else if let Some(Cmd::Ring { entries }) = issued.last() {
                        let e = *entries;
                        shadow_update(&mut shd, issued.last().unwrap(), &json!({"depth": e.next_power_of_two()}));
                    } else {
                        shadow_update(&mut shd, issued.last().unwrap(), &json!({}));
                    }
                }
            }
        }
        sh.borrow_mut().cmds.extend(issued);
        if stall_ms > 0 && !stalled && k >= 3 {
            stalled = true;
            std::thread::sleep(Duration::from_millis(stall_ms));
        }
        step(&mut sim, &mut k, &sh);
        let mut guard = 0;
        while sh.borrow().busy && guard < 200 {
            step(&mut sim, &mut k, &sh);
            guard += 1;
        }
        let res: Vec<Value> = sh.borrow_mut().results.drain(..).collect();
        for v in res {
            if v["ev"] == "cqe" {
                shadow_cqe(&mut shd, v["tag"].as_u64().unwrap_or(0));
            }
        }
        if crash_now {
            crashes += 1;
            // variant: the software returns Ok(()) by itself first (handles parked outside the
            // task), and only then the controller crashes the host
            let exited = rng.random_range(0..100) < exit_pct;
            if exited {
                sh.borrow_mut().cmds.push_back(Cmd::Exit);
                step(&mut sim, &mut k, &sh);
                let mut guard = 0;
                while sim.is_host_running("h") && guard < 5 {
                    step(&mut sim, &mut k, &sh);
                    guard += 1;
                }
            }
            sim.crash("h");
            p.borrow().twin.lock().unwrap_or_else(|e| e.into_inner()).crash();
            p.borrow_mut().on_crash();
            sh.borrow_mut().cmds.clear();
            sh.borrow_mut().busy = false;
            sim.bounce("h");
            shadow_update(&mut shd, &Cmd::Crash, &json!({}));
            if !exited {
                for z in shd.zombie.iter_mut() {
                    *z = false; // handles are gone with the software
                }
            }
            // the new incarnation reports the crash image at its first poll
            step(&mut sim, &mut k, &sh);
            sh.borrow_mut().results.clear();
        }
    }
    // end phase: let every latency elapse, then drain and report
    let extra = cfg.lat_hi.div_ceil(cfg.tick_us) + 1;
    for _ in 0..extra {
        step(&mut sim, &mut k, &sh);
    }
    // drain every ring the consumer still holds, then a final crash + bounce: what the run made durable
    // (ring fsyncs included) is compared with the twin's crash image by the new incarnation
    {
        let held: Vec<usize> = (1..=shd.rings.len()).filter(|r| shd.rings[*r - 1] || shd.zombie[*r - 1]).collect();
        sh.borrow_mut().cmds.extend(held.into_iter().map(|r| Cmd::Drain { r }));
        step(&mut sim, &mut k, &sh);
        sim.crash("h");
        p.borrow().twin.lock().unwrap_or_else(|e| e.into_inner()).crash();
        p.borrow_mut().on_crash();
        sh.borrow_mut().cmds.clear();
        sim.bounce("h");
        step(&mut sim, &mut k, &sh);
    }
    sh.borrow_mut().finish = true;
    let mut guard = 0;
    while !sh.borrow().finished && guard < 50 {
        step(&mut sim, &mut k, &sh);
        guard += 1;
    }
    if !sh.borrow().finished {
        rec::emit(json!({"ev":"hung"}));
    }
}

fn random(args: &[String]) {
    let seed = util::arg_u64(args, "seed", 1);
    let runs = util::arg_u64(args, "runs", 10);
    let mode = util::arg(args, "mode").unwrap_or_else(|| "direct".into());
    let steps = util::arg_u64(args, "steps", 60) as usize;
    let stall = util::arg_u64(args, "stall", 0);
    let exit_pct = util::arg_u64(args, "exitcrash", 50);
    let out = util::arg(args, "out").expect("out=");
    let base = RunCfg {
        tick_us: util::arg_u64(args, "tick", 1000),
        lat_lo: util::arg_u64(args, "latlo", 0),
        lat_hi: util::arg_u64(args, "lathi", 0),
        cache: util::arg_u64(args, "cache", 0) == 1,
        cap: util::arg(args, "cap").and_then(|v| v.parse().ok()),
        nf: util::arg_u64(args, "nf", 2) as usize,
        init_len: util::arg_u64(args, "initlen", 2) as usize,
        fs_seed: 0,
    };
    let mut all: Vec<Value> = Vec::new();
    let mut panics = 0;
    for run in 0..runs {
        let s = seed.wrapping_mul(1_000_003).wrapping_add(run);
        let cfg = RunCfg { fs_seed: s, ..base.clone() };
        rec::take();
        let body = || {
            let mut rng = SmallRng::seed_from_u64(s);
            if mode == "sim" {
                random_sim(&mut rng, &cfg, steps, stall, exit_pct);
            } else {
                random_direct(&mut rng, &cfg, steps);
            }
        };
        let r = if std::env::var("URING_DEBUG").is_ok() { body(); Ok(()) } else { util::catch(body) };
        let mut tr = rec::take();
        if let Err(msg) = r {
            panics += 1;
            tr.push(json!({"ev":"panic","message":msg}));
        }
        // turmoil's own tracing events are not part of this trace schema
        tr.retain(|e| e["ev"] != "t");
        all.extend(tr);
    }
    util::write_ndjson(&out, &all);
    let cq = all.iter().filter(|e| e["ev"] == "cqe").count();
    let canc = all.iter().filter(|e| e["ev"] == "cqe" && e["res"] == ECANCELED).count();
    let rej = all.iter().filter(|e| e["ev"] == "push" && e["ok"] == false).count();
    let crashes = all.iter().filter(|e| e["ev"] == "crash").count();
    println!("runs={runs} events={} cqes={cq} cancelled={canc} full_pushes={rej} crashes={crashes} panics={panics}", all.len());
}

fn script(args: &[String]) {
    let inp = util::arg(args, "in").expect("in=");
    let out = util::arg(args, "out").expect("out=");
    let v: Value = serde_json::from_str(&std::fs::read_to_string(&inp).expect("read script")).expect("script json");
    let c = &v["cfg"];
    let g = |k: &str, d: u64| c[k].as_u64().unwrap_or(d);
    let cfg = RunCfg {
        tick_us: g("tick", 1000),
        lat_lo: g("latlo", 0),
        lat_hi: g("lathi", 0),
        cache: false,
        cap: None,
        nf: g("nf", 1) as usize,
        init_len: g("initlen", 3) as usize,
        fs_seed: g("fs_seed", 1),
    };
    rec::take();
    let r = util::catch(|| {
        let mut d = Direct::new(&cfg);
        for s in v["cmds"].as_array().expect("cmds") {
            let cmd = parse_cmd(s).expect("command");
            d.step(&cmd);
        }
        d.finish();
    });
    let mut tr = rec::take();
    if let Err(msg) = r {
        tr.push(json!({"ev":"panic","message":msg}));
    }
    util::write_ndjson(&out, &tr);
    println!("events={}", tr.len());
}

fn main() {
    let args: Vec<String> = std::env::args().skip(1).collect();
    match args.first().map(|s| s.as_str()) {
        Some("replay") => replay(&args[1..]),
        Some("random") => rec::with_recorder(|| random(&args[1..])),
        Some("script") => script(&args[1..]),
        _ => {
            eprintln!("usage: uring replay|random|script key=value ...");
            std::process::exit(2);
        }
    }
}
