//! Driver for the simulated filesystem (C10 / C07, specs/fs).
//!
//!   fs replay in=<behaviours.ndjson> out=<summary.json> traces=<dir> [fe=std|tokio|mix] [hosts=1|2] [name=<tag>]
//!       every line is one behaviour printed by TLC (FsGen): `{"h":[{op,rr}..], "last":{op,rr,ri,dv,devs,vr,vi,st}}`.
//!       The operations are executed on a fresh `Fs` through the shims; the result of every call, and for the
//!       last operation the read-back view and the `Fs::verif_dump` state, are compared with TLC's predictions.
//!       Behaviours on which the real code leaves the reference are written as NDJSON traces for TLC.
//!   fs simreplay in=<behaviours.ndjson> out=<summary.json> ps=.. [every=<n>]
//!       the behaviours that end in a crash, executed by host software inside a running `Sim`; the crash is
//!       `Sim::crash` + `Sim::bounce`, the restarted software reads the tree back.
//!   fs torn in=<behaviours.ndjson> out=<trace.ndjson> ps=.. block=<b> seeds=<n>
//!       the histories that end in a crash, executed with `block_size` set under many fs seeds; every distinct
//!       post-crash image is recorded as a run (membership in the permitted set is decided by TLC).
//!   fs extend in=<behaviours.ndjson> out=<trace.ndjson> ps=.. dirs=.. depth=<n> judge=c10|c07
//!       behaviours on which the code left the ImplSpec, extended by every sequence of directory syncs (and a
//!       crash) and recorded for the PropSpec alone.
//!   fs random seed=<n> runs=<n> len=<n> out=<trace.ndjson> [crash=<percent>] [fe=..] [rich=0|1]
//!       seeded random histories on the real code, recorded as one NDJSON trace (reset / op events).
//!
//! No verdict is taken here: the harness only reports where observations differ from TLC's predictions.

use serde_json::{json, Value};
use std::future::Future;
use std::io::{Read, Seek, SeekFrom, Write};
use std::os::unix::fs::FileExt;
use std::pin::pin;
use std::sync::{Arc, Mutex};
use std::task::{Context, Poll, Waker};
use std::time::Duration;
use turmoil_fs::shim::std::fs as sfs;
use turmoil_fs::shim::tokio::fs as tfs;
use turmoil_fs::{EnterCtx, Fs, FsConfig};
use vh::util;

fn now_or_panic<F: Future>(f: F) -> F::Output {
    // the tokio shim never suspends when io_latency is not configured
    let mut f = pin!(f);
    let mut cx = Context::from_waker(Waker::noop());
    match f.as_mut().poll(&mut cx) {
        Poll::Ready(v) => v,
        Poll::Pending => panic!("tokio shim future was pending"),
    }
}

fn ok(v: Value) -> Value {
    json!({"ok": true, "e": "", "kd": "", "v": v})
}

fn err(e: &std::io::Error) -> Value {
    use std::io::ErrorKind as K;
    let msg = e.to_string();
    let class = match e.kind() {
        K::NotFound => "NotFound".to_string(),
        K::AlreadyExists => "AlreadyExists".to_string(),
        K::PermissionDenied if msg.contains("not opened for") => "BadAccess".to_string(),
        K::PermissionDenied => "PermissionDenied".to_string(),
        K::InvalidInput => "InvalidInput".to_string(),
        K::DirectoryNotEmpty => "NotEmpty".to_string(),
        K::IsADirectory => "IsDir".to_string(),
        K::NotADirectory => "NotDir".to_string(),
        _ => match msg.as_str() {
            "No such file or directory" => "NotFound".to_string(),
            "File exists" => "AlreadyExists".to_string(),
            "Directory not empty" => "NotEmpty".to_string(),
            "Is a directory" => "IsDir".to_string(),
            "Not a directory" => "NotDir".to_string(),
            m => format!("Other:{m}"),
        },
    };
    json!({"ok": false, "e": class, "kd": format!("{:?}", e.kind()), "v": 0})
}

fn res<T>(r: std::io::Result<T>, f: impl FnOnce(T) -> Value) -> Value {
    match r {
        Ok(v) => ok(f(v)),
        Err(e) => err(&e),
    }
}

fn bytes_json(b: &[u8]) -> Value {
    Value::Array(b.iter().map(|x| json!(*x)).collect())
}

fn json_bytes(v: &Value) -> Vec<u8> {
    v.as_array()
        .map(|a| a.iter().map(|x| x.as_u64().unwrap_or(0) as u8).collect())
        .unwrap_or_default()
}

/// value-level equality: Ok vs Err, value, error class
fn same_res(a: &Value, b: &Value) -> bool {
    a["ok"] == b["ok"] && if a["ok"] == json!(true) { a["v"] == b["v"] } else { a["e"] == b["e"] }
}

struct Host {
    fs: Arc<Mutex<Fs>>,
    files: Vec<Option<sfs::File>>, // slot h-1
    clock: u64,
    nop: u64,
    fe: String,
}

impl Host {
    fn new(maxh: usize, seed: u64, fe: &str, cfg: FsConfig) -> Host {
        Host {
            fs: Arc::new(Mutex::new(Fs::new(cfg, seed))),
            files: (0..maxh).map(|_| None).collect(),
            clock: 1,
            nop: 0,
            fe: fe.to_string(),
        }
    }

    fn tokio_turn(&self) -> bool {
        match self.fe.as_str() {
            "tokio" => true,
            "mix" => self.nop % 2 == 1,
            _ => false,
        }
    }

    /// Execute one operation through the shims; the passage of time between calls is part of C10.
    fn exec(&mut self, op: &Value) -> Value {
        self.clock += 3;
        self.nop += 1;
        let arc = self.fs.clone();
        let _g = turmoil_fs::enter(&arc, EnterCtx { now: Duration::from_millis(self.clock), on_corruption: None });
        let tk = self.tokio_turn();
        // the background-sync coin of the call (sync_probability knob): forced through the public field
        if let Some(bg) = op["bg"].as_bool() {
            self.fs.lock().unwrap_or_else(|e| e.into_inner()).sync_probability = if bg { 1.0 } else { 0.0 };
        }
        match util::catch(|| self.exec_inner(op, tk)) {
            Ok(v) => v,
            Err(p) => json!({"ok": false, "e": format!("Panic:{p}"), "kd": "Panic", "v": 0}),
        }
    }

    fn exec_inner(&mut self, op: &Value, tk: bool) -> Value {
        if op["k"] == json!("crash") {
            // Sim::crash drops the host's software (every File) and then crashes the filesystem
            for f in self.files.iter_mut() {
                *f = None;
            }
            self.fs.lock().unwrap_or_else(|e| e.into_inner()).crash();
            let ps = str_list(&op["ps"]);
            return ok(view_paths(&ps));
        }
        exec_op(&mut self.files, op, tk)
    }
}

/// One shim call on the filesystem that is current on this thread (entered by the harness, or by turmoil
/// for the host whose software is running).
fn exec_op(files: &mut [Option<sfs::File>], op: &Value, tk: bool) -> Value {
    struct S<'a> {
        files: &'a mut [Option<sfs::File>],
    }
    impl S<'_> {
        fn with_tokio<R>(&mut self, h: usize, f: impl FnOnce(&mut tfs::File) -> R) -> R {
            let std = self.files[h].take().expect("open handle");
            let mut t = tfs::File::from_std(std);
            let r = f(&mut t);
            self.files[h] = Some(t.into_std());
            r
        }
        fn run(&mut self, op: &Value, tk: bool) -> Value {
        let k = op["k"].as_str().unwrap_or("");
        let p = op["p"].as_str().unwrap_or("").to_string();
        let h = op["h"].as_u64().unwrap_or(0) as usize;
        let hi = h.wrapping_sub(1);
        let b = |f: &str| op[f].as_bool().unwrap_or(false);
        match k {
            "open" => {
                let r = if tk {
                    let mut o = tfs::OpenOptions::new();
                    o.read(b("rd")).write(b("wr")).append(b("app")).truncate(b("tr")).create(b("cr")).create_new(b("cn"));
                    now_or_panic(o.open(&p)).map(|f| f.into_std())
                } else {
                    let mut o = sfs::OpenOptions::new();
                    o.read(b("rd")).write(b("wr")).append(b("app")).truncate(b("tr")).create(b("cr")).create_new(b("cn"));
                    o.open(&p)
                };
                match r {
                    Ok(f) => {
                        self.files[hi] = Some(f);
                        ok(json!(h))
                    }
                    Err(e) => err(&e),
                }
            }
            "close" => {
                self.files[hi] = None;
                ok(json!(0))
            }
            "write_at" => {
                let data = json_bytes(&op["data"]);
                let off = op["off"].as_u64().unwrap();
                let r = if tk {
                    self.with_tokio(hi, |f| now_or_panic(f.write_at(&data, off)))
                } else {
                    self.files[hi].as_ref().unwrap().write_at(&data, off)
                };
                res(r, |n| json!(n))
            }
            "read_at" => {
                let mut buf = vec![0u8; op["n"].as_u64().unwrap() as usize];
                let off = op["off"].as_u64().unwrap();
                let r = if tk {
                    self.with_tokio(hi, |f| now_or_panic(f.read_at(&mut buf, off)))
                } else {
                    self.files[hi].as_ref().unwrap().read_at(&mut buf, off)
                };
                res(r, |n| bytes_json(&buf[..n]))
            }
            "write" => {
                let data = json_bytes(&op["data"]);
                let r = if tk {
                    self.with_tokio(hi, |f| now_or_panic(tokio::io::AsyncWriteExt::write(f, &data)))
                } else {
                    self.files[hi].as_mut().unwrap().write(&data)
                };
                res(r, |n| json!(n))
            }
            "read" => {
                let mut buf = vec![0u8; op["n"].as_u64().unwrap() as usize];
                let r = if tk {
                    self.with_tokio(hi, |f| now_or_panic(tokio::io::AsyncReadExt::read(f, &mut buf)))
                } else {
                    self.files[hi].as_mut().unwrap().read(&mut buf)
                };
                res(r, |n| bytes_json(&buf[..n]))
            }
            "seek" => {
                let off = op["off"].as_i64().unwrap();
                let pos = match op["wh"].as_str().unwrap() {
                    "set" => SeekFrom::Start(off as u64),
                    "end" => SeekFrom::End(off),
                    _ => SeekFrom::Current(off),
                };
                let r = if tk {
                    self.with_tokio(hi, |f| now_or_panic(tokio::io::AsyncSeekExt::seek(f, pos)))
                } else {
                    self.files[hi].as_mut().unwrap().seek(pos)
                };
                res(r, |n| json!(n))
            }
            "set_len" => {
                let n = op["n"].as_u64().unwrap();
                let r = if tk {
                    self.with_tokio(hi, |f| now_or_panic(f.set_len(n)))
                } else {
                    self.files[hi].as_ref().unwrap().set_len(n)
                };
                res(r, |_| json!(0))
            }
            "len" => {
                let r = if tk {
                    self.with_tokio(hi, |f| now_or_panic(f.metadata()))
                } else {
                    self.files[hi].as_ref().unwrap().metadata()
                };
                res(r, |m| json!(m.len()))
            }
            "sync_all" => {
                let r = if tk {
                    self.with_tokio(hi, |f| now_or_panic(f.sync_all()))
                } else {
                    self.files[hi].as_ref().unwrap().sync_all()
                };
                res(r, |_| json!(0))
            }
            "sync_data" => {
                let r = if tk {
                    self.with_tokio(hi, |f| now_or_panic(f.sync_data()))
                } else {
                    self.files[hi].as_ref().unwrap().sync_data()
                };
                res(r, |_| json!(0))
            }
            "sync_dir" => res(if tk { now_or_panic(tfs::sync_dir(&p)) } else { sfs::sync_dir(&p) }, |_| json!(0)),
            "rename" => {
                let q = op["q"].as_str().unwrap();
                res(if tk { now_or_panic(tfs::rename(&p, q)) } else { sfs::rename(&p, q) }, |_| json!(0))
            }
            "remove_file" => res(if tk { now_or_panic(tfs::remove_file(&p)) } else { sfs::remove_file(&p) }, |_| json!(0)),
            "create_dir" => res(if tk { now_or_panic(tfs::create_dir(&p)) } else { sfs::create_dir(&p) }, |_| json!(0)),
            "create_dir_all" => {
                res(if tk { now_or_panic(tfs::create_dir_all(&p)) } else { sfs::create_dir_all(&p) }, |_| json!(0))
            }
            "remove_dir" => res(if tk { now_or_panic(tfs::remove_dir(&p)) } else { sfs::remove_dir(&p) }, |_| json!(0)),
            "remove_dir_all" => {
                res(if tk { now_or_panic(tfs::remove_dir_all(&p)) } else { sfs::remove_dir_all(&p) }, |_| json!(0))
            }
            "read_dir" => res(if tk { now_or_panic(tfs::read_dir(&p)) } else { sfs::read_dir(&p) }, entries_json),
            "metadata" => res(if tk { now_or_panic(tfs::metadata(&p)) } else { sfs::metadata(&p) }, |m| {
                json!({"k": if m.is_dir() { "dir" } else { "file" }, "l": if m.is_dir() { 0 } else { m.len() }})
            }),
            "exists" => {
                let e = if tk { now_or_panic(tfs::try_exists(&p)).unwrap_or(false) } else { sfs::exists(&p) };
                ok(json!(e))
            }
            "read_file" => res(if tk { now_or_panic(tfs::read(&p)) } else { sfs::read(&p) }, |d| bytes_json(&d)),
            "write_file" => {
                let data = json_bytes(&op["data"]);
                res(if tk { now_or_panic(tfs::write(&p, &data)) } else { sfs::write(&p, &data) }, |_| json!(0))
            }
            other => panic!("unknown op kind {other}"),
        }
        }
    }
    S { files }.run(op, tk)
}

impl Host {
    /// Read back every listed path: metadata (kind, length), contents, directory listing.
    fn view(&mut self, ps: &[String]) -> Value {
        self.clock += 1;
        let arc = self.fs.clone();
        let _g = turmoil_fs::enter(&arc, EnterCtx { now: Duration::from_millis(self.clock), on_corruption: None });
        match util::catch(|| view_paths(ps)) {
            Ok(v) => v,
            Err(p) => json!([format!("Panic:{p}")]),
        }
    }

    /// State of the implementation through the verification hook, in the layout FsGen prints.
    fn state(&self) -> Value {
        let fs = self.fs.lock().unwrap_or_else(|e| e.into_inner());
        let d = fs.verif_dump();
        let s = |p: &std::path::PathBuf| p.to_string_lossy().to_string();
        let mut pf: Vec<(String, Vec<u8>)> = d.persisted_files.iter().map(|(p, c)| (s(p), c.clone())).collect();
        pf.sort();
        let mut pd: Vec<String> = d.persisted_dirs.iter().map(s).collect();
        pd.sort();
        let mut se: Vec<String> = d.synced_entries.iter().map(s).collect();
        se.sort();
        let pend: Vec<Value> = d
            .pending
            .iter()
            .map(|o| {
                json!({"t": o.kind, "p": s(&o.path), "q": o.to.as_ref().map(s).unwrap_or_default(),
                       "n": o.num, "data": bytes_json(&o.data)})
            })
            .collect();
        let oh: Vec<Value> = self
            .files
            .iter()
            .map(|f| match f {
                Some(f) => {
                    let fd = std::os::fd::AsRawFd::as_raw_fd(f);
                    json!(d.open_handles.iter().find(|(x, _)| *x == fd).map(|(_, p)| s(p)).unwrap_or("?".into()))
                }
                None => json!(""),
            })
            .collect();
        json!({"pf": pf.iter().map(|(p, c)| json!({"p": p, "c": bytes_json(c)})).collect::<Vec<_>>(),
               "pd": pd, "se": se, "pend": pend, "oh": oh,
               "extra": d.persisted_symlinks.len() + d.open_handles.len().saturating_sub(self.files.iter().flatten().count())})
    }
}

/// Read back every listed path on the current filesystem: metadata (kind, length), contents, listing.
fn view_paths(ps: &[String]) -> Value {
    let mut out = Vec::new();
    for p in ps {
        let (mut k, mut l, mut d) = ("none".to_string(), 0u64, Vec::new());
        let mut tails: Vec<Value> = Vec::new();
        if let Ok(m) = sfs::metadata(p) {
            if m.is_dir() {
                k = "dir".into();
            } else {
                k = "file".into();
                l = m.len();
                match sfs::read(p) {
                    Ok(c) => d = c,
                    Err(e) => k = format!("file(read failed: {e})"),
                }
                // positional reads that do not start at 0: the tails from the offsets 1..3
                if let Ok(f) = sfs::File::open(p) {
                    for o in 1..=l.min(3) {
                        let mut buf = vec![0u8; (l - o) as usize];
                        match f.read_at(&mut buf, o) {
                            Ok(n) => tails.push(bytes_json(&buf[..n])),
                            Err(e) => tails.push(json!(format!("read_at failed: {e}"))),
                        }
                    }
                }
            }
        }
        let (ed, e) = match sfs::read_dir(p) {
            Ok(rd) => (true, entries_json(rd)),
            Err(_) => (false, json!([])),
        };
        out.push(json!({"k": k, "l": l, "d": bytes_json(&d), "t": tails, "ed": ed, "e": e}));
    }
    Value::Array(out)
}

fn entries_json(rd: sfs::ReadDir) -> Value {
    let mut v: Vec<String> = rd.filter_map(|e| e.ok()).map(|e| e.path().to_string_lossy().to_string()).collect();
    v.sort();
    json!(v)
}

fn str_list(v: &Value) -> Vec<String> {
    v.as_array().map(|a| a.iter().map(|x| x.as_str().unwrap_or("").to_string()).collect()).unwrap_or_default()
}

/// The observed post-crash image equals the reference on every asserted path (reference entries with
/// kind "?" are not asserted; entries of a listing that are not asserted themselves are ignored).
fn image_matches(ps: &[String], obs: &Value, refimg: &Value) -> bool {
    let (Some(o), Some(r)) = (obs.as_array(), refimg.as_array()) else { return false };
    if o.len() != r.len() || r.len() != ps.len() {
        return false;
    }
    let masked = |c: &str| ps.iter().position(|p| p == c).map(|j| r[j]["k"] == json!("?")).unwrap_or(false);
    o.iter().zip(r).all(|(a, b)| {
        if b["k"] == json!("?") {
            return true;
        }
        let e: Vec<Value> = a["e"].as_array().cloned().unwrap_or_default().into_iter().filter(|c| !masked(c.as_str().unwrap_or(""))).collect();
        let content_ok = if b["k"] == json!("file") {
            // any content the knobs permit
            b["alt"].as_array().map(|alts| alts.contains(&a["d"])).unwrap_or(false) && a["l"].as_u64() == a["d"].as_array().map(|d| d.len() as u64)
        } else {
            a["d"] == json!([]) && a["l"] == json!(0)
        };
        a["k"] == b["k"] && a["ed"] == b["ed"] && Value::Array(e) == b["e"] && content_ok
    })
}

/// Outcome of one behaviour line.
struct LineOut {
    class: &'static str, // ok | known | unexplained | drift | prefix
    detail: Value,
    kind_mismatch: Vec<(String, bool)>, // "<op>: observed <kd> expected <kd>", predicted by FsImpl
    trace: Vec<Value>,
}

fn run_line(beh: &Value, ps: &[String], maxh: usize, fe: &str, seed: u64, record: bool, c07: bool) -> LineOut {
    let mut host = Host::new(maxh, seed, fe, FsConfig::default());
    let mut trace = vec![json!({"ev": "reset", "ps": ps})];
    let mut kind_mismatch = Vec::new();
    let empty = vec![];
    let hist = beh["h"].as_array().unwrap_or(&empty);
    for (i, e) in hist.iter().enumerate() {
        let r = host.exec(&e["op"]);
        if record {
            let v = if e["op"]["k"] == json!("crash") { json!([]) } else { host.view(ps) };
            trace.push(json!({"ev": "op", "op": e["op"], "res": r, "view": v}));
        }
        // judge c07: only crash images are compared with the reference
        let same = if e["op"]["k"] == json!("crash") { image_matches(ps, &r["v"], &e["rr"]["v"]) } else { c07 || same_res(&r, &e["rr"]) };
        if !same {
            return LineOut {
                class: "prefix",
                detail: json!({"step": i + 1, "op": e["op"], "observed": r, "ref": e["rr"]}),
                kind_mismatch,
                trace,
            };
        }
    }
    let last = &beh["last"];
    let op = &last["op"];
    let crash = op["k"] == json!("crash");
    let r = host.exec(op);
    let view = if crash { json!([]) } else { host.view(ps) };
    let st = host.state();
    trace.push(json!({"ev": "op", "op": op, "res": r, "view": view, "st": st}));
    // against the reference
    let ref_res_ok = if crash { image_matches(ps, &r["v"], &last["rr"]["v"]) } else { c07 || same_res(&r, &last["rr"]) };
    let ref_view_ok = crash || c07 || view == last["vr"];
    // against the transcription of the implementation
    let vi = if last["vi"].as_array().map(|a| a.is_empty()).unwrap_or(true) { &last["vr"] } else { &last["vi"] };
    let impl_res_ok = if crash { r["v"] == last["ri"]["v"] } else { same_res(&r, &last["ri"]) && r["kd"] == last["ri"]["kd"] };
    let impl_view_ok = crash || &view == vi;
    let mut st_cmp = st.clone();
    st_cmp.as_object_mut().unwrap().remove("extra");
    let impl_state_ok = st_cmp == last["st"] && st["extra"] == json!(0);
    // error kind sub-check (only when the class agrees)
    if !crash && !c07 && ref_res_ok && r["ok"] == json!(false) && r["kd"] != last["rr"]["kd"] {
        kind_mismatch.push((
            format!("{}: kind {} where std returns {}", op["k"].as_str().unwrap_or(""), r["kd"].as_str().unwrap_or(""),
                    last["rr"]["kd"].as_str().unwrap_or("")),
            r["kd"] == last["ri"]["kd"],
        ));
    }
    let what = if !ref_res_ok { if crash { "crash" } else { "res" } } else if !ref_view_ok { "view" } else { "" };
    let impl_ok = impl_res_ok && impl_view_ok && impl_state_ok;
    let detail = json!({"step": hist.len() + 1, "op": op, "what": what, "observed": r, "observed_view": view,
        "ref": last["rr"], "ref_view": last["vr"], "impl": last["ri"], "impl_view": vi,
        "impl_res_ok": impl_res_ok, "impl_view_ok": impl_view_ok, "impl_state_ok": impl_state_ok,
        "observed_state": st, "impl_state": last["st"], "devs": last["devs"], "predicted_dv": last["dv"]});
    let class = if ref_res_ok && ref_view_ok {
        if impl_ok { "ok" } else { "drift" }
    } else if impl_ok && last["devs"].as_array().map(|a| !a.is_empty()).unwrap_or(false) {
        "known"
    } else {
        "unexplained"
    };
    LineOut { class, detail, kind_mismatch, trace }
}

/// non-trivial = a mutation that took effect and a sync / rename / remove / truncate / crash
fn nontrivial(beh: &Value) -> bool {
    let mut ops: Vec<(&str, bool)> = beh["h"]
        .as_array()
        .map(|a| a.iter().map(|e| (e["op"]["k"].as_str().unwrap_or(""), e["rr"]["ok"] == json!(true))).collect())
        .unwrap_or_default();
    ops.push((beh["last"]["op"]["k"].as_str().unwrap_or(""), beh["last"]["rr"]["ok"] == json!(true)));
    let ctl = ops.iter().any(|(k, ok)| *ok && matches!(*k, "sync_all" | "sync_data" | "sync_dir" | "rename" | "remove_file" | "remove_dir" | "remove_dir_all" | "crash" | "set_len"));
    let mutn = ops.iter().any(|(k, ok)| *ok && matches!(*k, "open" | "write" | "write_at" | "write_file" | "create_dir" | "create_dir_all"));
    ctl && mutn
}

fn interesting(beh: &Value, observed: &Value) -> bool {
    let has_data = |v: &Value| v.as_array().map(|a| a.iter().any(|e| e["k"] == json!("file") && e["l"].as_u64().unwrap_or(0) > 0)).unwrap_or(false);
    nontrivial(beh) && beh["h"].as_array().map(|a| a.len()).unwrap_or(0) >= 3 && (has_data(&observed["view"]) || has_data(&observed["res"]["v"]))
}

fn main_replay(args: &[String]) {
    let inp = util::arg(args, "in").expect("in=");
    let out = util::arg(args, "out").expect("out=");
    let traces = util::arg(args, "traces").expect("traces=");
    let name = util::arg(args, "name").unwrap_or("fs".into());
    let fe = util::arg(args, "fe").unwrap_or("std".into());
    let maxh = util::arg_u64(args, "maxh", 2) as usize;
    let hosts = util::arg_u64(args, "hosts", 1);
    let c07 = util::arg(args, "judge").as_deref() == Some("c07");
    let ps: Vec<String> = util::arg(args, "ps").expect("ps=").split(',').map(|s| s.to_string()).collect();
    let cap_known = util::arg_u64(args, "cap_known", 40) as usize;
    let text = std::fs::read_to_string(&inp).expect("read behaviours");
    let lines: Vec<&str> = text.lines().filter(|l| !l.trim().is_empty()).collect();
    let (mut total, mut okc, mut nontriv, mut prefix) = (0u64, 0u64, 0u64, 0u64);
    let mut known: std::collections::BTreeMap<String, (u64, Value)> = Default::default();
    let mut unexplained: Vec<Value> = Vec::new();
    let mut drift: Vec<Value> = Vec::new();
    let mut kinds: std::collections::BTreeMap<String, (u64, bool)> = Default::default();
    let mut samples: Vec<Value> = Vec::new();
    let mut div_traces: Vec<Value> = Vec::new();
    let mut known_traced: std::collections::BTreeMap<String, usize> = Default::default();
    let mut run_id = 0u64;
    let mut idx = 0usize;
    while idx < lines.len() {
        // hosts=2: two filesystems alive at once, entered alternately; the second runs the next behaviour
        let group: Vec<usize> = if hosts == 2 && idx + 1 < lines.len() { vec![idx, idx + 1] } else { vec![idx] };
        let _other: Option<Host> = if hosts == 2 {
            // a second host with the same path names whose tree must not influence the first
            let beh: Value = serde_json::from_str(lines[group[group.len() - 1]]).expect("behaviour json");
            let mut h2 = Host::new(maxh, 99, &fe, FsConfig::default());
            for e in beh["h"].as_array().unwrap_or(&vec![]) {
                h2.exec(&e["op"]);
            }
            Some(h2)
        } else {
            None
        };
        for &li in &group {
            let beh: Value = serde_json::from_str(lines[li]).expect("behaviour json");
            let o = run_line(&beh, &ps, maxh, &fe, li as u64 + 1, false, c07);
            total += 1;
            if nontrivial(&beh) {
                nontriv += 1;
            }
            for (k, predicted) in o.kind_mismatch {
                let e = kinds.entry(k).or_insert((0, true));
                e.0 += 1;
                e.1 &= predicted;
            }
            match o.class {
                "ok" => {
                    okc += 1;
                    if samples.len() < 2 && o.trace.last().map(|t| interesting(&beh, t)).unwrap_or(false) {
                        samples.push(json!({"behaviour": beh, "observed": o.trace.last()}));
                    }
                }
                "prefix" => prefix += 1,
                "drift" => {
                    if drift.len() < 150 {
                        drift.push(json!({"line": li, "detail": o.detail, "behaviour": beh}));
                    } else {
                        drift.push(json!({"line": li}));
                    }
                }
                c => {
                    let devs = str_list(&o.detail["devs"]).join("+");
                    let traced = if c == "known" {
                        let n = known_traced.entry(devs.clone()).or_insert(0);
                        *n += 1;
                        *n <= cap_known
                    } else {
                        true
                    };
                    if traced {
                        // record the whole behaviour (views after every call) for TLC
                        let full = run_line(&beh, &ps, maxh, &fe, li as u64 + 1, true, c07);
                        run_id += 1;
                        for (i, mut ev) in full.trace.into_iter().enumerate() {
                            ev["run"] = json!(run_id);
                            ev["i"] = json!(i);
                            ev["line"] = json!(li);
                            ev["hasst"] = json!(!ev["st"].is_null());
                            if ev["st"].is_null() {
                                ev["st"] = json!(0);
                            }
                            div_traces.push(ev);
                        }
                    }
                    if c == "known" {
                        let e = known.entry(devs).or_insert((0, json!({"line": li, "run": if traced { run_id } else { 0 }, "detail": o.detail, "behaviour": beh})));
                        e.0 += 1;
                    } else {
                        unexplained.push(json!({"line": li, "run": run_id, "detail": o.detail, "behaviour": beh}));
                    }
                }
            }
        }
        idx += group.len();
    }
    let tpath = format!("{traces}/{name}.div.ndjson");
    util::write_ndjson(&tpath, &div_traces);
    let summary = json!({
        "behaviours": total, "ok": okc, "nontrivial": nontriv, "prefix_divergent": prefix,
        "known": known.iter().map(|(k, (n, w))| json!({"devs": k, "count": n, "witness": w})).collect::<Vec<_>>(),
        "unexplained": unexplained, "drift_count": drift.len(), "drift": drift.iter().take(150).collect::<Vec<_>>(),
        "kind_mismatch": kinds.iter().map(|(k, (n, p))| json!({"what": k, "count": n, "predicted_by_impl": p})).collect::<Vec<_>>(),
        "div_trace": tpath, "div_runs": run_id, "samples": samples,
    });
    std::fs::write(&out, serde_json::to_string(&summary).unwrap()).unwrap();
    println!(
        "{total} behaviours: {okc} conform, known-family {}, unexplained {}, drift {}, prefix-divergent {prefix}",
        known.values().map(|v| v.0).sum::<u64>(),
        unexplained.len(),
        drift.len()
    );
}

// ---------------------------------------------------------------------------------------------
// random histories

use rand::rngs::SmallRng;
use rand::{Rng, SeedableRng};

struct Gen {
    rng: SmallRng,
    files: Vec<&'static str>,
    dirs: Vec<&'static str>,
    modes: Vec<&'static str>,
    maxh: usize,
    open: Vec<Option<(bool, bool, bool)>>, // rd, wr, app per slot (as the driver believes)
    bytes: u8,
    maxlen: usize,
    maxoff: u64,
    crash_pct: u32,
    dir_rename: bool,
    knob: bool,
}

fn mode_flags(m: &str) -> (bool, bool, bool, bool, bool, bool) {
    let rd = matches!(m, "r" | "rw" | "rwc" | "rwt" | "rwct" | "rwn" | "ra" | "rac");
    let wr = matches!(m, "w" | "rw" | "wc" | "wt" | "wct" | "wn" | "rwc" | "rwt" | "rwct" | "rwn");
    let app = matches!(m, "a" | "ac" | "an" | "ra" | "rac");
    let tr = matches!(m, "wt" | "wct" | "rwt" | "rwct");
    let cr = matches!(m, "wc" | "wct" | "rwc" | "rwct" | "ac" | "rac");
    let cn = matches!(m, "wn" | "rwn" | "an");
    (rd, wr, app, tr, cr, cn)
}

impl Gen {
    fn pick<'a, T: Copy>(&mut self, v: &'a [T]) -> T {
        v[self.rng.random_range(0..v.len())]
    }
    fn data(&mut self) -> Value {
        let n = self.rng.random_range(1..=self.maxlen);
        Value::Array((0..n).map(|_| json!(self.rng.random_range(1..=self.bytes))).collect())
    }
    fn next_op(&mut self, ps: &[String]) -> Value {
        loop {
            let open_slots: Vec<usize> = (0..self.maxh).filter(|i| self.open[*i].is_some()).collect();
            let free: Option<usize> = (0..self.maxh).find(|i| self.open[*i].is_none());
            let r = self.rng.random_range(0..100u32);
            if r < self.crash_pct {
                return json!({"k": "crash", "ps": ps});
            }
            let files = self.files.clone();
            let dirs = self.dirs.clone();
            if self.crash_pct > 0 {
                // durability histories: favour the calls that make things durable
                let d = self.rng.random_range(0..100u32);
                if d < 12 {
                    let mut dd = dirs.clone();
                    dd.push("/");
                    return json!({"k": "sync_dir", "p": self.pick(&dd)});
                } else if d < 24 && !open_slots.is_empty() {
                    let k = self.pick(&["sync_all", "sync_all", "sync_data"]);
                    return json!({"k": k, "h": self.pick(&open_slots) + 1});
                }
            }
            let c = self.rng.random_range(0..100u32);
            let op = match c {
                0..=13 => {
                    let Some(h) = free else { continue };
                    let modes = self.modes.clone();
                    let m = self.pick(&modes);
                    let (rd, wr, app, tr, cr, cn) = mode_flags(m);
                    json!({"k": "open", "p": self.pick(&files), "h": h + 1, "m": m, "rd": rd, "wr": wr, "app": app, "tr": tr, "cr": cr, "cn": cn})
                }
                14..=18 => {
                    if open_slots.is_empty() { continue }
                    json!({"k": "close", "h": self.pick(&open_slots) + 1})
                }
                19..=52 => {
                    if open_slots.is_empty() { continue }
                    let h = self.pick(&open_slots);
                    let (_rd, wr, app) = self.open[h].unwrap();
                    let off = self.rng.random_range(0..=self.maxoff);
                    let n = self.rng.random_range(0..=self.maxlen as u64 + 3);
                    match self.rng.random_range(0..12u32) {
                        0 | 1 if !app => json!({"k": "write_at", "h": h + 1, "off": off, "data": self.data()}),
                        2 | 3 => json!({"k": "write", "h": h + 1, "data": self.data()}),
                        4 => json!({"k": "read_at", "h": h + 1, "off": off, "n": n}),
                        5 => json!({"k": "read", "h": h + 1, "n": n}),
                        6 => {
                            let wh = self.pick(&["set", "end", "cur"]);
                            json!({"k": "seek", "h": h + 1, "wh": wh, "off": self.rng.random_range(-2..=3i64)})
                        }
                        7 | 8 if wr || app => json!({"k": "set_len", "h": h + 1, "n": self.rng.random_range(0..=self.maxoff + 1)}),
                        9 => json!({"k": "len", "h": h + 1}),
                        10 => json!({"k": "sync_all", "h": h + 1}),
                        11 => json!({"k": "sync_data", "h": h + 1}),
                        _ => continue,
                    }
                }
                53..=60 => {
                    let mut d = dirs.clone();
                    d.push("/");
                    json!({"k": "sync_dir", "p": self.pick(&d)})
                }
                61..=68 => {
                    let f = self.pick(&files);
                    let t = self.pick(&files);
                    if f == t { continue }
                    json!({"k": "rename", "p": f, "q": t})
                }
                69..=70 => {
                    if !self.dir_rename || dirs.len() < 2 { continue }
                    let f = self.pick(&dirs);
                    let t = self.pick(&dirs);
                    if f == t || t.starts_with(f) || f.starts_with(t) { continue }
                    json!({"k": "rename", "p": f, "q": t})
                }
                71..=76 => json!({"k": "remove_file", "p": self.pick(&files)}),
                77..=81 => json!({"k": "create_dir", "p": self.pick(&dirs)}),
                82..=83 => json!({"k": "create_dir_all", "p": self.pick(&dirs)}),
                84..=86 => json!({"k": "remove_dir", "p": self.pick(&dirs)}),
                87 => json!({"k": "remove_dir_all", "p": self.pick(&dirs)}),
                88..=89 => {
                    let mut d = dirs.clone();
                    d.push("/");
                    json!({"k": "read_dir", "p": self.pick(&d)})
                }
                90..=92 => {
                    let mut a = files.clone();
                    a.extend(dirs.iter());
                    let k = self.pick(&["metadata", "exists"]);
                    json!({"k": k, "p": self.pick(&a)})
                }
                93..=95 => json!({"k": "read_file", "p": self.pick(&files)}),
                _ => json!({"k": "write_file", "p": self.pick(&files), "data": self.data()}),
            };
            let mut op = op;
            if matches!(op["k"].as_str().unwrap(), "write_at" | "write" | "set_len" | "write_file") {
                op["bg"] = json!(self.knob && self.rng.random_bool(0.35));
            }
            return op;
        }
    }
    fn note(&mut self, op: &Value, res: &Value) {
        match op["k"].as_str().unwrap() {
            "open" if res["ok"] == json!(true) => {
                let h = op["h"].as_u64().unwrap() as usize - 1;
                self.open[h] = Some((op["rd"] == json!(true), op["wr"] == json!(true), op["app"] == json!(true)));
            }
            "close" => self.open[op["h"].as_u64().unwrap() as usize - 1] = None,
            "crash" => self.open.iter_mut().for_each(|s| *s = None),
            _ => {}
        }
    }
}

fn main_random(args: &[String]) {
    let seed = util::arg_u64(args, "seed", 1);
    let runs = util::arg_u64(args, "runs", 50);
    let len = util::arg_u64(args, "len", 25);
    let out = util::arg(args, "out").expect("out=");
    let fe = util::arg(args, "fe").unwrap_or("mix".into());
    let crash_pct = util::arg_u64(args, "crash", 0) as u32;
    let richness = util::arg_u64(args, "rich", 1);
    let rich = richness >= 1;
    let dir_rename = util::arg_u64(args, "dir_rename", 0) == 1;
    let knob = util::arg_u64(args, "knob", 0) == 1;
    let maxh = util::arg_u64(args, "maxh", 2) as usize;
    // rich=2: nested directories (/d/e below /d) with a file in the deepest one
    let files: Vec<&'static str> = match richness {
        0 => vec!["/a", "/b", "/d/a"],
        1 => vec!["/a", "/b", "/d/a", "/d/b", "/e/a"],
        _ => vec!["/a", "/d/a", "/d/e/a", "/e/a"],
    };
    let dirs: Vec<&'static str> = match richness {
        0 => vec!["/d"],
        1 => vec!["/d", "/e"],
        _ => vec!["/d", "/d/e", "/e"],
    };
    let mut ps: Vec<String> = vec!["/".to_string()];
    ps.extend(files.iter().map(|s| s.to_string()));
    ps.extend(dirs.iter().map(|s| s.to_string()));
    ps.sort();
    let mut all: Vec<Value> = Vec::new();
    let mut nops = 0u64;
    for r in 0..runs {
        let mut g = Gen {
            rng: SmallRng::seed_from_u64(seed.wrapping_mul(7919).wrapping_add(r) ^ 0x6673),
            files: files.clone(),
            dirs: dirs.clone(),
            modes: vec!["r", "w", "rw", "wc", "wt", "wct", "wn", "rwc", "rwt", "rwct", "rwn", "a", "ac", "an", "ra", "rac"],
            maxh,
            open: vec![None; maxh],
            bytes: if rich { 3 } else { 2 },
            maxlen: if rich { 3 } else { 1 },
            maxoff: if rich { 7 } else { 3 },
            crash_pct,
            dir_rename,
            knob,
        };
        let mut host = Host::new(maxh, seed * 1000 + r, &fe, FsConfig::default());
        all.push(json!({"ev": "reset", "run": r + 1, "i": 0, "ps": ps, "st": 0, "hasst": false, "line": 0}));
        for i in 0..len {
            let op = g.next_op(&ps);
            let res = host.exec(&op);
            g.note(&op, &res);
            let crash = op["k"] == json!("crash");
            let view = if crash { json!([]) } else { host.view(&ps) };
            let st = host.state();
            all.push(json!({"ev": "op", "run": r + 1, "i": i + 1, "op": op, "res": res, "view": view, "st": st, "hasst": true, "line": 0}));
            nops += 1;
        }
    }
    util::write_ndjson(&out, &all);
    println!("{runs} runs, {nops} operations");
}

// ---------------------------------------------------------------------------------------------
// the same behaviours inside a running simulation: host software issues the calls, the controller
// crashes and bounces the host (Sim::crash / Sim::bounce), the restarted software reads the tree back

struct Shared {
    seg: usize,
    segments: Vec<Vec<Value>>,
    results: Vec<Value>,
    done: bool,
}

fn sim_line(beh: &Value, ps: &[String], maxh: usize, tk: bool, park: bool) -> Vec<Value> {
    use std::cell::RefCell;
    use std::rc::Rc;
    let mut ops: Vec<Value> = beh["h"].as_array().map(|a| a.iter().map(|e| e["op"].clone()).collect()).unwrap_or_default();
    ops.push(beh["last"]["op"].clone());
    let mut segments: Vec<Vec<Value>> = vec![vec![]];
    for op in ops {
        if op["k"] == json!("crash") {
            segments.push(vec![]);
        } else {
            segments.last_mut().unwrap().push(op);
        }
    }
    let nseg = segments.len();
    let shared = Rc::new(RefCell::new(Shared { seg: 0, segments, results: vec![], done: false }));
    let mut sim = turmoil::Builder::new().build();
    let sh = shared.clone();
    let psv: Vec<String> = ps.to_vec();
    sim.host("h", move || {
        let sh = sh.clone();
        let ps = psv.clone();
        async move {
            let mut files: Vec<Option<sfs::File>> = (0..maxh).map(|_| None).collect();
            {
                let mut s = sh.borrow_mut();
                if s.seg > 0 {
                    // restarted software: what the crash left
                    let v = util::catch(|| view_paths(&ps)).unwrap_or(json!([]));
                    s.results.push(ok(v));
                }
                let ops = s.segments[s.seg].clone();
                for (n, op) in ops.iter().enumerate() {
                    let r = match util::catch(|| exec_op(&mut files, op, tk && n % 2 == 1)) {
                        Ok(v) => v,
                        Err(p) => json!({"ok": false, "e": format!("Panic:{p}"), "kd": "Panic", "v": 0}),
                    };
                    s.results.push(r);
                }
                s.done = true;
            }
            if park {
                // the open files stay alive until the host is crashed
                std::future::pending::<()>().await;
            }
            // otherwise the software has done its work and returns: the host is idle (not running) when it is crashed
            drop(files);
            Ok(())
        }
    });
    for seg in 0..nseg {
        let mut guard = 0;
        while !shared.borrow().done {
            let _ = sim.step();
            guard += 1;
            if guard > 50 {
                break;
            }
        }
        if seg + 1 < nseg {
            // one more step: a host whose software returned is noticed as finished by the simulation
            let _ = sim.step();
            sim.crash("h");
            {
                let mut s = shared.borrow_mut();
                s.seg += 1;
                s.done = false;
            }
            sim.bounce("h");
        }
    }
    let r = shared.borrow().results.clone();
    r
}

fn main_simreplay(args: &[String]) {
    let inp = util::arg(args, "in").expect("in=");
    let out = util::arg(args, "out").expect("out=");
    let maxh = util::arg_u64(args, "maxh", 2) as usize;
    let every = util::arg_u64(args, "every", 1) as usize;
    let tk = util::arg(args, "fe").as_deref() == Some("mix");
    let ps: Vec<String> = util::arg(args, "ps").expect("ps=").split(',').map(|s| s.to_string()).collect();
    let text = std::fs::read_to_string(&inp).expect("read behaviours");
    let (mut total, mut okc, mut crashes) = (0u64, 0u64, 0u64);
    let mut bad: Vec<Value> = Vec::new();
    for (li, line) in text.lines().enumerate() {
        if line.trim().is_empty() || li % every != 0 {
            continue;
        }
        let beh: Value = serde_json::from_str(line).expect("behaviour json");
        // only behaviours with a crash, and whose last call is the crash (the image is TLC's prediction)
        if beh["last"]["op"]["k"] != json!("crash") {
            continue;
        }
        // twice: the software parks after its calls (crash of a running host) / returns Ok (crash of an idle host)
        for park in [true, false] {
        total += 1;
        let res = sim_line(&beh, &ps, maxh, tk, park);
        // compare every crash image with the direct-drive prediction of TLC
        let mut k = 0usize;
        let mut good = true;
        let mut what = json!(null);
        for e in beh["h"].as_array().unwrap_or(&vec![]).iter() {
            if e["op"]["k"] == json!("crash") {
                crashes += 1;
                if res.get(k).map(|r| !image_matches(&ps, &r["v"], &e["rr"]["v"])).unwrap_or(true) {
                    good = false;
                    what = json!({"crash_in_prefix": k, "observed": res.get(k), "ref": e["rr"]["v"]});
                }
            }
            k += 1;
        }
        crashes += 1;
        let last = &beh["last"];
        match res.get(k) {
            Some(r) => {
                // the code must do inside the simulation what it does when driven directly: TLC's prediction for
                // the implementation (ri) when it is a known family, the reference otherwise
                let ref_ok = image_matches(&ps, &r["v"], &last["rr"]["v"]);
                let impl_ok = r["v"] == last["ri"]["v"];
                if !(ref_ok || (impl_ok && last["dv"] == json!("crash"))) {
                    good = false;
                    what = json!({"observed": r["v"], "ref": last["rr"]["v"], "impl": last["ri"]["v"]});
                }
            }
            None => good = false,
        }
        if good {
            okc += 1;
        } else if bad.len() < 10 {
            bad.push(json!({"line": li, "software": if park { "parked" } else { "returned" }, "behaviour": beh, "what": what, "results": res}));
        } else {
            bad.push(json!({"line": li}));
        }
        }
    }
    let summary = json!({"behaviours": total, "ok": okc, "crashes": crashes, "bad_count": bad.len(), "bad": bad.iter().take(10).collect::<Vec<_>>()});
    std::fs::write(&out, serde_json::to_string(&summary).unwrap()).unwrap();
    println!("{total} crash behaviours through Sim::crash/bounce ({crashes} crashes): {okc} as predicted, {} not", bad.len());
}

// ---------------------------------------------------------------------------------------------
// torn writes: every history that ends in a crash, executed with block_size set under many fs seeds (the
// tearing choices are drawn from the per-host rng); every distinct outcome is recorded as a run for TLC

fn main_torn(args: &[String]) {
    let inp = util::arg(args, "in").expect("in=");
    let out = util::arg(args, "out").expect("out=");
    let maxh = util::arg_u64(args, "maxh", 1) as usize;
    let block = util::arg_u64(args, "block", 2);
    let seeds = util::arg_u64(args, "seeds", 16);
    let fe = util::arg(args, "fe").unwrap_or("std".into());
    let ps: Vec<String> = util::arg(args, "ps").expect("ps=").split(',').map(|s| s.to_string()).collect();
    let text = std::fs::read_to_string(&inp).expect("read behaviours");
    let mut seen_hist: std::collections::HashSet<String> = Default::default();
    let mut all: Vec<Value> = Vec::new();
    let (mut hists, mut runs, mut multi, mut torn) = (0u64, 0u64, 0u64, 0u64);
    for line in text.lines() {
        if line.trim().is_empty() {
            continue;
        }
        let beh: Value = serde_json::from_str(line).expect("behaviour json");
        if beh["last"]["op"]["k"] != json!("crash") {
            continue;
        }
        let mut ops: Vec<Value> = beh["h"].as_array().map(|a| a.iter().map(|e| e["op"].clone()).collect()).unwrap_or_default();
        ops.push(beh["last"]["op"].clone());
        // the same history is emitted once per tearing choice of the model
        if !seen_hist.insert(serde_json::to_string(&ops).unwrap()) {
            continue;
        }
        hists += 1;
        let mut outcomes: std::collections::HashSet<String> = Default::default();
        for seed in 0..seeds {
            let mut cfg = FsConfig::default();
            cfg.block_size(block);
            let mut host = Host::new(maxh, seed * 7919 + hists, &fe, cfg);
            let mut evs = vec![json!({"ev": "reset", "ps": ps, "st": 0, "hasst": false})];
            for op in &ops {
                let r = host.exec(op);
                let crash = op["k"] == json!("crash");
                let st = if crash { host.state() } else { json!(0) };
                evs.push(json!({"ev": "op", "op": op, "res": r, "view": [], "st": st, "hasst": crash}));
            }
            let image = serde_json::to_string(&evs.last().unwrap()["res"]["v"]).unwrap();
            if outcomes.insert(image) {
                runs += 1;
                for (i, mut ev) in evs.into_iter().enumerate() {
                    ev["run"] = json!(runs);
                    ev["i"] = json!(i);
                    ev["line"] = json!(hists);
                    ev["seed"] = json!(seed);
                    all.push(ev);
                }
            }
        }
        if outcomes.len() > 1 {
            multi += 1;
        }
        if outcomes.len() > 2 {
            torn += 1;
        }
    }
    util::write_ndjson(&out, &all);
    println!("{hists} crash histories x {seeds} seeds with block_size {block}: {runs} distinct outcomes recorded, {multi} histories with more than one image, {torn} with more than two");
}

// ---------------------------------------------------------------------------------------------
// drift extension: behaviours on which the code left the ImplSpec (but not the reference) are no longer covered
// by the transition cover -- their continuations start from a state the model does not know.  Each is extended
// by every sequence of <= depth directory syncs (and, judge c07, a crash) and recorded for the PropSpec alone.

fn main_extend(args: &[String]) {
    let inp = util::arg(args, "in").expect("in=");
    let out = util::arg(args, "out").expect("out=");
    let maxh = util::arg_u64(args, "maxh", 1) as usize;
    let depth = util::arg_u64(args, "depth", 2) as usize;
    let fe = util::arg(args, "fe").unwrap_or("std".into());
    let c07 = util::arg(args, "judge").as_deref() == Some("c07");
    let exact = util::arg_u64(args, "exact", 0) == 1; // re-execute a recorded run as it is
    let ps: Vec<String> = util::arg(args, "ps").expect("ps=").split(',').map(|s| s.to_string()).collect();
    let dirs: Vec<String> = util::arg(args, "dirs").expect("dirs=").split(',').map(|s| s.to_string()).collect();
    let text = std::fs::read_to_string(&inp).expect("read behaviours");
    // all sequences of directory syncs up to the depth
    let mut seqs: Vec<Vec<String>> = vec![vec![]];
    let mut frontier: Vec<Vec<String>> = vec![vec![]];
    for _ in 0..depth {
        let mut next = Vec::new();
        for s in &frontier {
            for d in &dirs {
                let mut t = s.clone();
                t.push(d.clone());
                next.push(t);
            }
        }
        seqs.extend(next.iter().cloned());
        frontier = next;
    }
    let mut all: Vec<Value> = Vec::new();
    let mut runs = 0u64;
    for (li, line) in text.lines().enumerate() {
        if line.trim().is_empty() {
            continue;
        }
        let beh: Value = serde_json::from_str(line).expect("behaviour json");
        let mut base: Vec<Value> = beh["h"].as_array().map(|a| a.iter().map(|e| e["op"].clone()).collect()).unwrap_or_default();
        base.push(beh["last"]["op"].clone());
        for seq in &seqs {
            if (!c07 && !exact && seq.is_empty()) || (exact && !seq.is_empty()) {
                continue;
            }
            let mut ops = base.clone();
            ops.extend(seq.iter().map(|d| json!({"k": "sync_dir", "p": d})));
            if c07 && !exact {
                ops.push(json!({"k": "crash", "ps": ps}));
            }
            runs += 1;
            let mut host = Host::new(maxh, li as u64 + 1, &fe, FsConfig::default());
            all.push(json!({"ev": "reset", "run": runs, "i": 0, "line": li, "ps": ps, "st": 0, "hasst": false}));
            for (i, op) in ops.iter().enumerate() {
                let r = host.exec(op);
                let v = if c07 || op["k"] == json!("crash") { json!([]) } else { host.view(&ps) };
                all.push(json!({"ev": "op", "run": runs, "i": i + 1, "line": li, "op": op, "res": r, "view": v, "st": 0, "hasst": false}));
            }
        }
    }
    util::write_ndjson(&out, &all);
    println!("{runs} extended runs");
}

fn main() {
    let args: Vec<String> = std::env::args().skip(1).collect();
    match args.first().map(|s| s.as_str()) {
        Some("replay") => main_replay(&args[1..]),
        Some("random") => main_random(&args[1..]),
        Some("simreplay") => main_simreplay(&args[1..]),
        Some("torn") => main_torn(&args[1..]),
        Some("extend") => main_extend(&args[1..]),
        _ => {
            eprintln!("usage: fs replay|random key=value ...");
            std::process::exit(2);
        }
    }
}
