//! Driver for the turmoil-net TCP stack (C06 / C16 / C13).
//!
//! The harness *is* the wire: it owns the `Net` / `EnterGuard`, calls
//! `egress_all`, keeps the packets in flight and delivers / drops one per
//! action. Application calls go through the shim (`TcpListener`, `TcpStream`)
//! with futures polled by hand (`Waker::noop()`), `try_read` / `try_write`.
//!
//!   ktcp replay in=<behaviours.ndjson> out=<summary.json> traces=<dir> <cfg>
//!       executes TLC behaviours (KTcpGen) and compares, after every action,
//!       the call result, the emitted packets, netstat rows, table counts and
//!       TCB scalars with what TLC predicted.
//!   ktcp random seed= runs= steps= out=<trace.ndjson> <cfg> [nconn= maxdrops= maxage= ...]
//!       seeded random walks of application + wire, recorded as NDJSON events.
//!   ktcp reuse n= out=<trace.ndjson> <cfg>
//!       a cancelled connect followed by n sequential connect/accept/close
//!       cycles (ephemeral ports wrap at 16384): 4-tuple reuse.
//!   <cfg>: mss= scap= rcap= backlog= retxt= retxmax=

use std::collections::HashMap;
use std::future::Future;
use std::io;
use std::net::{IpAddr, Ipv4Addr, SocketAddr};
use std::pin::Pin;
use std::sync::atomic::{AtomicBool, Ordering};
use std::sync::Arc;
use std::task::{Context, Poll, Wake, Waker};

use rand::rngs::StdRng;
use rand::{Rng, SeedableRng};
use serde_json::{json, Value};
use turmoil_net::shim::tokio::net::{TcpListener, TcpStream, UdpSocket};
use turmoil_net::{
    netstat, set_current, verif_dump, EnterGuard, HostId, KernelConfig, Net, NetstatState, Packet,
    Proto, Transport,
};
use vh::util::{arg, arg_u64, catch, write_ndjson};

const IP1: IpAddr = IpAddr::V4(Ipv4Addr::new(10, 0, 0, 1));
const IP2: IpAddr = IpAddr::V4(Ipv4Addr::new(10, 0, 0, 2));
const LPORT: u16 = 9000;
const MODEL_LPORT: i64 = 100;
const EPH0: u16 = 49152;
const UDP_SRC: u16 = 7000;
const UDP_DST: u16 = 7001;

#[derive(Clone, Debug)]
struct Cfg {
    mss: u32,
    scap: usize,
    rcap: usize,
    backlog: usize,
    retxt: u32,
    retxmax: u32,
    wild: bool,
}

impl Cfg {
    fn from_args(a: &[String]) -> Cfg {
        Cfg {
            mss: arg_u64(a, "mss", 1) as u32,
            scap: arg_u64(a, "scap", 2) as usize,
            rcap: arg_u64(a, "rcap", 2) as usize,
            backlog: arg_u64(a, "backlog", 1) as usize,
            retxt: arg_u64(a, "retxt", 3) as u32,
            retxmax: arg_u64(a, "retxmax", 2) as u32,
            wild: arg_u64(a, "wild", 0) == 1,
        }
    }
    fn json(&self) -> Value {
        json!({"mss": self.mss, "scap": self.scap, "rcap": self.rcap, "backlog": self.backlog,
               "retxt": self.retxt, "retxmax": self.retxmax, "wild": self.wild})
    }
}

type ConnFut = Pin<Box<dyn Future<Output = io::Result<TcpStream>>>>;

/// A waker that only records that it was invoked: makes lost wake-ups observable.
struct FlagWaker(AtomicBool);
impl Wake for FlagWaker {
    fn wake(self: Arc<Self>) {
        self.0.store(true, Ordering::SeqCst);
    }
    fn wake_by_ref(self: &Arc<Self>) {
        self.0.store(true, Ordering::SeqCst);
    }
}

enum Client {
    Pending(ConnFut),
    Held(TcpStream),
    Gone,
}

struct World {
    guard: EnterGuard,
    h1: HostId,
    h2: HostId,
    wire: Vec<(Packet, u32)>,
    /// ISN of a flow (src host, src port, dst port)
    isn: HashMap<(u8, u16, u16), u32>,
    listener: Option<TcpListener>,
    clients: Vec<Client>,
    servers: HashMap<i64, Option<TcpStream>>,
    written: HashMap<(i64, String), usize>,
    rcap: usize,
    /// bind the listener to 0.0.0.0 instead of the acceptor host's address
    wild: bool,
    /// parked accept futures (id -> flag waker); an accept "future" is a poll_accept call
    /// site that owns a waker, exactly what `TcpListener::accept()` is
    parked: Vec<(u64, Arc<FlagWaker>)>,
    /// flags of accept futures that were dropped while parked (their wakers stay registered)
    stale: Vec<Arc<FlagWaker>>,
    /// loopback connection on the connector host (not part of the recorded scenario)
    lo: Option<(TcpListener, TcpStream, TcpStream)>,
    /// connects that failed at their first poll, reported by the next poll_connects
    failed_now: Vec<Value>,
}

fn cx() -> Context<'static> {
    Context::from_waker(Waker::noop())
}

fn err_name(e: &io::Error) -> &'static str {
    match e.kind() {
        io::ErrorKind::WouldBlock => "wouldblock",
        io::ErrorKind::ConnectionReset => "reset",
        io::ErrorKind::TimedOut => "timedout",
        io::ErrorKind::BrokenPipe => "brokenpipe",
        io::ErrorKind::NotConnected => "notconnected",
        io::ErrorKind::ConnectionRefused => "refused",
        io::ErrorKind::NotFound => "notfound",
        io::ErrorKind::AddrInUse => "addrinuse",
        io::ErrorKind::AddrNotAvailable => "addrnotavailable",
        _ => "othererr",
    }
}

thread_local! {
    /// `reuse` mode: client ports are reported relative to the first port of the current cycle.
    static PORT_BASE: std::cell::Cell<u16> = const { std::cell::Cell::new(0) };
}

fn mport(p: u16) -> i64 {
    if p == LPORT {
        MODEL_LPORT
    } else if p >= EPH0 {
        let base = PORT_BASE.with(|b| b.get());
        ((p - EPH0 + 16384 - base) % 16384) as i64 + 1
    } else if p == UDP_SRC || p == UDP_DST {
        0
    } else {
        p as i64
    }
}

fn host_of(ip: IpAddr) -> u8 {
    if ip == IP1 {
        1
    } else if ip == IP2 {
        2
    } else {
        0 // e.g. a loopback source address: the other end of the packet decides
    }
}

fn byte_val(side: &str, i: usize) -> u8 {
    (if side == "c" { 0 } else { 100 }) + ((i - 1) % 90) as u8 + 1
}

impl World {
    fn new(cfg: &Cfg) -> World {
        let kc = KernelConfig::default()
            .mtu(40 + cfg.mss)
            .send_buf_cap(cfg.scap)
            .recv_buf_cap(cfg.rcap)
            .default_backlog(cfg.backlog)
            .retx_threshold(cfg.retxt)
            .retx_max(cfg.retxmax);
        let mut net = Net::with_config(kc);
        let h1 = net.add_host(IP1);
        let h2 = net.add_host(IP2);
        let guard = net.enter();
        World {
            guard,
            h1,
            h2,
            wire: Vec::new(),
            isn: HashMap::new(),
            listener: None,
            clients: Vec::new(),
            servers: HashMap::new(),
            written: HashMap::new(),
            rcap: cfg.rcap,
            wild: cfg.wild,
            parked: Vec::new(),
            stale: Vec::new(),
            lo: None,
            failed_now: Vec::new(),
        }
    }

    /// Drop every handle while the Net is still installed.
    fn teardown(mut self) {
        set_current(self.h1);
        self.clients.clear();
        self.lo = None;
        set_current(self.h2);
        self.servers.clear();
        self.listener = None;
        drop(self.guard);
    }

    // ---- normalisation ---------------------------------------------------

    fn learn_isns(&mut self) {
        for (hi, h) in verif_dump().iter().enumerate() {
            for s in &h.socks {
                if let (Some(t), Some(l)) = (&s.tcb, s.local) {
                    if t.state == "SynSent" || t.state == "SynReceived" {
                        self.isn
                            .entry((hi as u8 + 1, l.port(), t.peer.port()))
                            .or_insert(t.snd_una.wrapping_sub(1));
                    }
                }
            }
        }
    }

    fn pkt_json(&mut self, p: &Packet) -> Value {
        let (mut sh, mut dh) = (host_of(p.src), host_of(p.dst));
        if sh == 0 {
            sh = 3 - dh;
        }
        if dh == 0 {
            dh = 3 - sh;
        }
        match &p.payload {
            Transport::Udp(d) => json!({"src": sh, "dst": dh, "sp": mport(d.src_port), "dp": mport(d.dst_port),
                "seq": 0, "ack": 0, "fl": "U", "win": 0, "data": vec![0u8; d.payload.len()]}),
            Transport::Tcp(s) => {
                if s.flags.syn {
                    self.isn.entry((sh, s.src_port, s.dst_port)).or_insert(s.seq);
                }
                let mut fl = String::new();
                if s.flags.syn {
                    fl.push('S');
                }
                if s.flags.ack {
                    fl.push('A');
                }
                if s.flags.fin {
                    fl.push('F');
                }
                if s.flags.rst {
                    fl.push('R');
                }
                if s.flags.psh {
                    fl.push('P');
                }
                let own = self.isn.get(&(sh, s.src_port, s.dst_port)).copied();
                let peer = self.isn.get(&(dh, s.dst_port, s.src_port)).copied();
                let seq = if s.flags.rst && s.flags.ack && s.seq == 0 {
                    0
                } else {
                    own.map(|i| s.seq.wrapping_sub(i)).unwrap_or(s.seq)
                };
                let ack = if s.flags.ack {
                    peer.map(|i| s.ack.wrapping_sub(i)).unwrap_or(s.ack)
                } else {
                    s.ack
                };
                json!({"src": sh, "dst": dh, "sp": mport(s.src_port), "dp": mport(s.dst_port),
                    "seq": seq, "ack": ack, "fl": fl, "win": s.window, "data": s.payload.to_vec()})
            }
        }
    }

    fn obs(&self) -> Value {
        let mut q = Vec::new();
        let mut lq: i64 = -1;
        for (h, ip) in [(1, IP1), (2, IP2)] {
            for e in netstat(ip).entries {
                if e.proto != Proto::Tcp {
                    continue;
                }
                if e.state == Some(NetstatState::Listen) {
                    if h == 2 {
                        lq = e.recv_q as i64;
                    }
                    continue;
                }
                q.push(json!({"h": h, "lp": mport(e.local.port()),
                    "rp": e.peer.map(|p| mport(p.port())).unwrap_or(0), "sq": e.send_q, "rq": e.recv_q}));
            }
        }
        let d = verif_dump();
        let t: Vec<Value> = d
            .iter()
            .map(|h| json!({"s": h.sockets, "b": h.bindings, "c": h.connections}))
            .collect();
        json!({"q": q, "lq": lq, "t": t})
    }

    fn dump(&mut self) -> Value {
        self.learn_isns();
        let d = verif_dump();
        let mut hosts = Vec::new();
        for (hi, h) in d.iter().enumerate() {
            let hn = hi as u8 + 1;
            let mut socks = Vec::new();
            for s in &h.socks {
                let lp = s.local.map(|l| l.port()).unwrap_or(0);
                if let Some((_, ready)) = &s.listen {
                    socks.push(json!({"fd": s.fd, "lp": mport(lp), "rp": 0, "st": "Listen", "una": 1, "nxt": 1,
                        "wnd": 65535, "rnxt": 0, "sq": 0, "rq": 0, "wrc": false, "pfin": false, "fseq": -1,
                        "rst": false, "tmo": false, "esa": 0, "rtx": 0, "fdc": s.fd_closed, "ready": ready}));
                } else if let Some(t) = &s.tcb {
                    let own = self.isn.get(&(hn, lp, t.peer.port())).copied();
                    let peer = self.isn.get(&(3 - hn, t.peer.port(), lp)).copied();
                    let rel = |v: u32, i: Option<u32>| i.map(|i| v.wrapping_sub(i)).unwrap_or(v) as i64;
                    // rcv_nxt is literally 0 until a SYN-ACK was processed (ISNs start at 0x0100_0000)
                    let rnxt = if t.rcv_nxt == 0 { 0 } else { rel(t.rcv_nxt, peer) };
                    socks.push(json!({"fd": s.fd, "lp": mport(lp), "rp": mport(t.peer.port()), "st": t.state,
                        "una": rel(t.snd_una, own), "nxt": rel(t.snd_nxt, own), "wnd": t.snd_wnd, "rnxt": rnxt,
                        "sq": t.send_buf_len, "rq": t.recv_buf_len, "wrc": t.wr_closed, "pfin": t.peer_fin,
                        "fseq": t.fin_seq.map(|f| rel(f, own)).unwrap_or(-1), "rst": t.reset, "tmo": t.timed_out,
                        "esa": t.egress_since_ack, "rtx": t.retx_attempts, "fdc": s.fd_closed,
                        "ready": Vec::<u64>::new()}));
                } else {
                    socks.push(json!({"fd": s.fd, "lp": mport(lp), "st": "Raw"}));
                }
            }
            hosts.push(Value::Array(socks));
        }
        Value::Array(hosts)
    }

    fn ages(&self) -> Vec<u32> {
        self.wire.iter().map(|w| w.1).collect()
    }

    /// Attach the post-state observation to an event.
    fn fin(&mut self, mut ev: Value) -> Value {
        let o = self.obs();
        let d = self.dump();
        let a = self.ages();
        let m = ev.as_object_mut().unwrap();
        m.insert("obs".into(), o);
        m.insert("dump".into(), d);
        m.insert("ages".into(), json!(a));
        ev
    }

    // ---- application operations -----------------------------------------

    fn listen(&mut self) -> Value {
        set_current(self.h2);
        let lip = if self.wild { IpAddr::V4(Ipv4Addr::UNSPECIFIED) } else { IP2 };
        let mut f = Box::pin(TcpListener::bind(SocketAddr::new(lip, LPORT)));
        let port = match f.as_mut().poll(&mut cx()) {
            Poll::Ready(Ok(l)) => {
                let p = l.local_addr().map(|a| mport(a.port())).unwrap_or(-1);
                self.listener = Some(l);
                p
            }
            _ => -1,
        };
        self.fin(json!({"ev": "listen", "port": port}))
    }

    fn droplistener(&mut self) -> Value {
        set_current(self.h2);
        self.listener = None;
        self.fin(json!({"ev": "droplistener"}))
    }

    fn connect(&mut self) -> Value {
        set_current(self.h1);
        let mut f: ConnFut = Box::pin(TcpStream::connect(SocketAddr::new(IP2, LPORT)));
        let c = self.clients.len() + 1;
        match f.as_mut().poll(&mut cx()) {
            Poll::Pending => self.clients.push(Client::Pending(f)),
            Poll::Ready(Ok(s)) => self.clients.push(Client::Held(s)),
            Poll::Ready(Err(e)) => {
                // the connect failed at once (e.g. no ephemeral port): reported as its completion
                self.clients.push(Client::Gone);
                self.failed_now.push(json!({"ev": "poll", "c": c, "res": err_name(&e), "lp": 0, "pp": 0}));
            }
        }
        self.fin(json!({"ev": "connect", "c": c}))
    }

    /// Poll every pending connect future, in attempt order; one event per completion.
    fn poll_connects(&mut self) -> Vec<Value> {
        let mut out = Vec::new();
        for e in std::mem::take(&mut self.failed_now) {
            let e = self.fin(e);
            out.push(e);
        }
        for i in 0..self.clients.len() {
            set_current(self.h1);
            let r = match &mut self.clients[i] {
                Client::Pending(f) => match f.as_mut().poll(&mut cx()) {
                    Poll::Pending => None,
                    Poll::Ready(r) => Some(r),
                },
                _ => None,
            };
            if let Some(r) = r {
                let ev = match r {
                    Ok(s) => {
                        let lp = s.local_addr().map(|a| mport(a.port())).unwrap_or(-1);
                        let pp = s.peer_addr().map(|a| mport(a.port())).unwrap_or(-1);
                        self.clients[i] = Client::Held(s);
                        json!({"ev": "poll", "c": i + 1, "res": "ok", "lp": lp, "pp": pp})
                    }
                    Err(e) => {
                        self.clients[i] = Client::Gone;
                        json!({"ev": "poll", "c": i + 1, "res": err_name(&e), "lp": 0, "pp": 0})
                    }
                };
                let ev = self.fin(ev);
                out.push(ev);
            }
        }
        out
    }

    fn cancel(&mut self, c: usize) -> Option<Value> {
        if !matches!(self.clients.get(c - 1), Some(Client::Pending(_))) {
            return None;
        }
        set_current(self.h1);
        self.clients[c - 1] = Client::Gone;
        Some(self.fin(json!({"ev": "cancel", "c": c})))
    }

    fn accept(&mut self) -> Option<Value> {
        set_current(self.h2);
        let l = self.listener.as_ref()?;
        match l.poll_accept(&mut cx()) {
            Poll::Ready(Ok((s, peer))) => {
                let pp = mport(peer.port());
                let lp = s.local_addr().map(|a| mport(a.port())).unwrap_or(-1);
                self.servers.insert(pp, Some(s));
                Some(self.fin(json!({"ev": "accept", "pp": pp, "lp": lp})))
            }
            _ => None,
        }
    }

    fn with_stream<R>(&mut self, p: i64, side: &str, f: impl FnOnce(&TcpStream) -> R) -> Option<R> {
        if side == "c" {
            set_current(self.h1);
            let idx = self.clients.iter().position(|c| match c {
                Client::Held(s) => s.local_addr().map(|a| mport(a.port())).ok() == Some(p),
                _ => false,
            })?;
            match &self.clients[idx] {
                Client::Held(s) => Some(f(s)),
                _ => None,
            }
        } else {
            set_current(self.h2);
            match self.servers.get(&p) {
                Some(Some(s)) => Some(f(s)),
                _ => None,
            }
        }
    }

    fn next_bytes(&self, p: i64, side: &str, n: usize) -> Vec<u8> {
        let w = *self.written.get(&(p, side.to_string())).unwrap_or(&0);
        (1..=n).map(|i| byte_val(side, w + i)).collect()
    }

    fn write(&mut self, p: i64, side: &str, data: &[u8]) -> Option<Value> {
        let r = self.with_stream(p, side, |s| s.try_write(data))?;
        let (res, n) = match r {
            Ok(n) => ("ok", n),
            Err(e) => (err_name(&e), 0),
        };
        *self.written.entry((p, side.to_string())).or_insert(0) += n;
        Some(self.fin(json!({"ev": "write", "p": p, "side": side, "data": data, "res": res, "n": n})))
    }

    fn with_stream_mut<R>(&mut self, p: i64, side: &str, f: impl FnOnce(&mut TcpStream) -> R) -> Option<R> {
        if side == "c" {
            set_current(self.h1);
            let idx = self.clients.iter().position(|c| match c {
                Client::Held(s) => s.local_addr().map(|a| mport(a.port())).ok() == Some(p),
                _ => false,
            })?;
            match &mut self.clients[idx] {
                Client::Held(s) => Some(f(s)),
                _ => None,
            }
        } else {
            set_current(self.h2);
            match self.servers.get_mut(&p) {
                Some(Some(s)) => Some(f(s)),
                _ => None,
            }
        }
    }

    /// `AsyncWrite::poll_write_vectored` with `data` cut into `k` slices (polled once, by hand).
    fn writev(&mut self, p: i64, side: &str, data: &[u8], k: usize) -> Option<Value> {
        use tokio::io::AsyncWrite;
        let k = k.clamp(1, data.len().max(1));
        let per = data.len().div_ceil(k);
        let slices: Vec<&[u8]> = data.chunks(per.max(1)).collect();
        let ios: Vec<io::IoSlice<'_>> = slices.iter().map(|s| io::IoSlice::new(s)).collect();
        let r = self.with_stream_mut(p, side, |s| Pin::new(s).poll_write_vectored(&mut cx(), &ios))?;
        let (res, n) = match r {
            Poll::Ready(Ok(n)) => ("ok", n),
            Poll::Ready(Err(e)) => (err_name(&e), 0),
            Poll::Pending => ("wouldblock", 0),
        };
        *self.written.entry((p, side.to_string())).or_insert(0) += n;
        let first: &[u8] = slices.first().copied().unwrap_or(&[]);
        Some(self.fin(json!({"ev": "write", "p": p, "side": side, "data": data, "first": first, "vec": slices.len(),
            "res": res, "n": n})))
    }

    fn read(&mut self, p: i64, side: &str, n: usize) -> Option<Value> {
        let mut buf = vec![0u8; n];
        let r = self.with_stream(p, side, |s| s.try_read(&mut buf))?;
        let (res, bytes): (&str, Vec<u8>) = match r {
            Ok(0) => ("eof", vec![]),
            Ok(k) => ("data", buf[..k].to_vec()),
            Err(e) => (err_name(&e), vec![]),
        };
        Some(self.fin(json!({"ev": "read", "p": p, "side": side, "n": n, "res": res, "bytes": bytes})))
    }

    fn shutdown(&mut self, p: i64, side: &str) -> Option<Value> {
        // poll_shutdown needs Pin<&mut TcpStream>: take the stream out for the call
        let res = if side == "c" {
            set_current(self.h1);
            let idx = self.clients.iter().position(|c| match c {
                Client::Held(s) => s.local_addr().map(|a| mport(a.port())).ok() == Some(p),
                _ => false,
            })?;
            match &mut self.clients[idx] {
                Client::Held(s) => shutdown_now(s),
                _ => return None,
            }
        } else {
            set_current(self.h2);
            match self.servers.get_mut(&p) {
                Some(Some(s)) => shutdown_now(s),
                _ => return None,
            }
        };
        Some(self.fin(json!({"ev": "shutdown", "p": p, "side": side, "res": res})))
    }

    fn close(&mut self, p: i64, side: &str) -> Option<Value> {
        if side == "c" {
            set_current(self.h1);
            let idx = self.clients.iter().position(|c| match c {
                Client::Held(s) => s.local_addr().map(|a| mport(a.port())).ok() == Some(p),
                _ => false,
            })?;
            self.clients[idx] = Client::Gone;
        } else {
            set_current(self.h2);
            match self.servers.get_mut(&p) {
                Some(s @ Some(_)) => *s = None,
                _ => return None,
            }
        }
        Some(self.fin(json!({"ev": "close", "p": p, "side": side})))
    }

    /// One UDP probe from host 1 to an unbound port of host 2: `send_to`, or `connect` + `try_send`,
    /// from a socket bound to the host's address or to 127.0.0.1.
    fn udp(&mut self, n: usize, mode: &str) -> Value {
        set_current(self.h1);
        let dst = SocketAddr::new(IP2, UDP_DST);
        // modes lo_sendto / lo_send: the socket is bound to 127.0.0.1 and sends to the other host
        let src_ip = if mode.starts_with("lo_") { IpAddr::V4(Ipv4Addr::LOCALHOST) } else { IP1 };
        let mut f = Box::pin(UdpSocket::bind(SocketAddr::new(src_ip, UDP_SRC)));
        let res = match f.as_mut().poll(&mut cx()) {
            Poll::Ready(Ok(s)) => {
                let r = if mode.ends_with("send") && !mode.ends_with("sendto") {
                    let connected = {
                        let mut c = Box::pin(s.connect(dst));
                        matches!(c.as_mut().poll(&mut cx()), Poll::Ready(Ok(())))
                    };
                    if connected {
                        s.try_send(&vec![0u8; n])
                    } else {
                        Err(io::Error::from(io::ErrorKind::NotConnected))
                    }
                } else {
                    s.try_send_to(&vec![0u8; n], dst)
                };
                drop(s);
                if r.is_ok() {
                    "ok"
                } else {
                    "err"
                }
            }
            _ => "err",
        };
        let npk = if res == "ok" { 1 } else { 0 };
        self.fin(json!({"ev": "udp", "n": n, "mode": mode, "res": res, "npk": npk}))
    }

    /// Poll `accept` with a fresh flag-waker future `a`: completes (accept event) or parks.
    fn accept_park(&mut self, a: u64) -> Vec<Value> {
        set_current(self.h2);
        let Some(l) = self.listener.as_ref() else {
            return vec![];
        };
        let fw = Arc::new(FlagWaker(AtomicBool::new(false)));
        let waker = Waker::from(fw.clone());
        let mut cxa = Context::from_waker(&waker);
        match l.poll_accept(&mut cxa) {
            Poll::Ready(Ok((s, peer))) => {
                let pp = mport(peer.port());
                let lp = s.local_addr().map(|a| mport(a.port())).unwrap_or(-1);
                self.servers.insert(pp, Some(s));
                vec![self.fin(json!({"ev": "accept", "pp": pp, "lp": lp}))]
            }
            Poll::Ready(Err(_)) => vec![],
            Poll::Pending => {
                self.parked.push((a, fw));
                vec![json!({"ev": "apark", "a": a})]
            }
        }
    }

    /// Drop the parked accept future `a` (its waker stays registered at the listener).
    fn accept_drop(&mut self, a: u64) -> Option<Value> {
        let i = self.parked.iter().position(|x| x.0 == a)?;
        let (_, fw) = self.parked.remove(i);
        self.stale.push(fw);
        Some(json!({"ev": "aunpark", "a": a, "why": "dropped"}))
    }

    /// Which parked accept futures have been woken, and the accept-queue depth.
    fn wakes(&self) -> Value {
        let woken: Vec<u64> = self.parked.iter().filter(|x| x.1 .0.load(Ordering::SeqCst)).map(|x| x.0).collect();
        let lq = self.obs()["lq"].as_i64().unwrap_or(-1);
        json!({"ev": "wakes", "woken": woken, "lq": lq})
    }

    /// A woken accept future is polled again by its task.
    fn accept_repoll(&mut self) -> Vec<Value> {
        let mut out = Vec::new();
        let woken: Vec<u64> = self.parked.iter().filter(|x| x.1 .0.load(Ordering::SeqCst)).map(|x| x.0).collect();
        for a in woken {
            let i = self.parked.iter().position(|x| x.0 == a).unwrap();
            self.parked.remove(i);
            out.push(json!({"ev": "aunpark", "a": a, "why": "repolled"}));
            out.extend(self.accept_park(a));
        }
        out
    }

    /// A loopback listener + established connection on the connector host, created before
    /// anything else (so its sockets come first in the table). Not recorded.
    fn lo_setup(&mut self) -> bool {
        set_current(self.h1);
        let lo_addr = SocketAddr::new(IpAddr::V4(Ipv4Addr::LOCALHOST), 9100);
        let mut f = Box::pin(TcpListener::bind(lo_addr));
        let Poll::Ready(Ok(l)) = f.as_mut().poll(&mut cx()) else {
            return false;
        };
        drop(f);
        let mut cf: ConnFut = Box::pin(TcpStream::connect(lo_addr));
        let mut client = None;
        let mut junk = Vec::new();
        for _ in 0..6 {
            set_current(self.h1);
            if client.is_none() {
                if let Poll::Ready(Ok(s)) = cf.as_mut().poll(&mut cx()) {
                    client = Some(s);
                }
            }
            self.guard.egress_all(&mut junk);
        }
        set_current(self.h1);
        let server = match l.poll_accept(&mut cx()) {
            Poll::Ready(Ok((s, _))) => s,
            _ => return false,
        };
        match client {
            Some(c) => {
                self.lo = Some((l, c, server));
                junk.is_empty()
            }
            None => false,
        }
    }

    /// Queue `n` bytes on the loopback connection (unrecorded) and drain what arrived.
    fn lo_traffic(&mut self, n: usize) {
        set_current(self.h1);
        if let Some((_, c, srv)) = &self.lo {
            let _ = c.try_write(&vec![7u8; n]);
            let mut buf = vec![0u8; 4096];
            let _ = srv.try_read(&mut buf);
        }
    }

    // ---- the wire ----------------------------------------------------------

    fn egress(&mut self) -> Value {
        let mut out = Vec::new();
        self.guard.egress_all(&mut out);
        for w in self.wire.iter_mut() {
            w.1 += 1;
        }
        let mut pk = Vec::new();
        for p in out {
            pk.push(self.pkt_json(&p));
            self.wire.push((p, 0));
        }
        let maxage = self.wire.iter().map(|w| w.1).max().unwrap_or(0);
        let wlen = self.wire.len();
        self.fin(json!({"ev": "egress", "pk": pk, "wlen": wlen, "maxage": maxage}))
    }

    fn deliver(&mut self, i: usize) -> Option<Value> {
        if i == 0 || i > self.wire.len() {
            return None;
        }
        let (p, age) = self.wire.remove(i - 1);
        let pj = self.pkt_json(&p);
        self.guard.deliver(p);
        Some(self.fin(json!({"ev": "deliver", "i": i, "p": pj, "age": age})))
    }

    fn drop_pk(&mut self, i: usize) -> Option<Value> {
        if i == 0 || i > self.wire.len() {
            return None;
        }
        let (p, _) = self.wire.remove(i - 1);
        let pj = self.pkt_json(&p);
        Some(self.fin(json!({"ev": "drop", "i": i, "p": pj})))
    }
}

fn shutdown_now(s: &mut TcpStream) -> &'static str {
    use tokio::io::AsyncWrite;
    match Pin::new(s).poll_shutdown(&mut cx()) {
        Poll::Ready(Ok(())) => "ok",
        Poll::Ready(Err(e)) => err_name(&e),
        Poll::Pending => "pending",
    }
}

// ---------------------------------------------------------------------------
// replay of TLC behaviours

fn strip(ev: &Value) -> Value {
    // the label-level fields of an event, for comparison with TLC's label
    let mut m = ev.as_object().unwrap().clone();
    for k in ["obs", "dump", "ages", "ev", "wlen", "maxage", "age", "npk"] {
        m.remove(k);
    }
    Value::Object(m)
}

fn label_fields(l: &Value) -> Value {
    let mut m = l.as_object().unwrap().clone();
    m.remove("a");
    Value::Object(m)
}

/// Execute one label; returns the events produced (None = not applicable).
fn exec(w: &mut World, l: &Value) -> Option<Vec<Value>> {
    let a = l["a"].as_str().unwrap_or("");
    let p = l["p"].as_i64().unwrap_or(0);
    let side = l["side"].as_str().unwrap_or("c").to_string();
    let one = |e: Option<Value>| e.map(|e| vec![e]);
    match a {
        "listen" => Some(vec![w.listen()]),
        "droplistener" => Some(vec![w.droplistener()]),
        "connect" => Some(vec![w.connect()]),
        "cancel" => one(w.cancel(l["c"].as_u64().unwrap_or(0) as usize)),
        "accept" => one(w.accept()),
        "write" => {
            let data: Vec<u8> = l["data"].as_array().map(|v| v.iter().map(|x| x.as_u64().unwrap_or(0) as u8).collect()).unwrap_or_default();
            one(w.write(p, &side, &data))
        }
        "read" => one(w.read(p, &side, l["n"].as_u64().unwrap_or(1) as usize)),
        "shutdown" => one(w.shutdown(p, &side)),
        "close" => one(w.close(p, &side)),
        "udp" => Some(vec![w.udp(l["n"].as_u64().unwrap_or(0) as usize, l["mode"].as_str().unwrap_or("sendto"))]),
        "egress" => Some(vec![w.egress()]),
        "deliver" => one(w.deliver(l["i"].as_u64().unwrap_or(0) as usize)),
        "drop" => one(w.drop_pk(l["i"].as_u64().unwrap_or(0) as usize)),
        _ => None,
    }
}

fn replay(args: &[String]) {
    let cfg = Cfg::from_args(args);
    let inp = arg(args, "in").expect("in=");
    let out = arg(args, "out").expect("out=");
    let traces = arg(args, "traces").expect("traces=");
    let text = std::fs::read_to_string(&inp).expect("read behaviours");
    let mut behaviours = 0u64;
    let mut nontrivial = 0u64;
    let mut divergent = 0u64;
    let mut steps = 0u64;
    let mut divergences: Vec<Value> = Vec::new();
    let mut samples: Vec<Value> = Vec::new();
    for (line_no, line) in text.lines().enumerate() {
        if line.trim().is_empty() {
            continue;
        }
        let beh: Value = serde_json::from_str(line).expect("behaviour json");
        let entries = beh.as_array().expect("array");
        behaviours += 1;
        let mut events: Vec<Value> = vec![json!({"ev": "reset", "cfg": cfg.json()})];
        let mut first_div: Option<Value> = None;
        let mut has_fault = false;
        let mut has_obs = false;
        let r = catch(|| {
            let mut w = World::new(&cfg);
            let mut pending_polls: Vec<Value> = Vec::new();
            for (si, ent) in entries.iter().enumerate() {
                let l = &ent["l"];
                let a = l["a"].as_str().unwrap_or("");
                steps += 1;
                if a == "drop" || (a == "deliver" && l["i"].as_u64() != Some(1)) || a == "cancel" || a == "droplistener" {
                    has_fault = true;
                }
                if a == "read" || a == "accept" || a == "poll" {
                    has_obs = true;
                }
                // connect completions: the harness polls after every deliver / egress; TLC
                // schedules the completion as its own `poll` step right after
                let got: Option<Value> = if a == "poll" {
                    if pending_polls.is_empty() {
                        None
                    } else {
                        Some(pending_polls.remove(0))
                    }
                } else {
                    if !pending_polls.is_empty() && first_div.is_none() {
                        first_div = Some(json!({"step": si + 1, "what": "connect completed although TLC predicts it pending",
                            "got": strip(&pending_polls[0])}));
                    }
                    for e in pending_polls.drain(..) {
                        events.push(e);
                    }
                    match exec(&mut w, l) {
                        Some(mut evs) => {
                            let e = evs.remove(0);
                            if a == "deliver" || a == "egress" {
                                pending_polls = w.poll_connects();
                            }
                            Some(e)
                        }
                        None => None,
                    }
                };
                match got {
                    None => {
                        if first_div.is_none() {
                            first_div = Some(json!({"step": si + 1, "what": "action of the behaviour is not possible on the real stack", "label": l}));
                        }
                        break;
                    }
                    Some(e) => {
                        if first_div.is_none() {
                            let mut what = Vec::new();
                            if strip(&e) != label_fields(l) {
                                what.push("result");
                            }
                            if e["obs"] != ent["obs"] {
                                what.push("obs");
                            }
                            if e["dump"] != ent["dump"] {
                                what.push("dump");
                            }
                            if e["ages"] != ent["ages"] {
                                what.push("wire");
                            }
                            if !what.is_empty() {
                                first_div = Some(json!({"step": si + 1, "what": what.join("+"), "label": l,
                                    "expected": {"obs": ent["obs"], "dump": ent["dump"], "ages": ent["ages"]},
                                    "got": {"label": strip(&e), "obs": e["obs"], "dump": e["dump"], "ages": e["ages"]}}));
                            }
                        }
                        events.push(e);
                    }
                }
            }
            for e in pending_polls.drain(..) {
                events.push(e);
            }
            w.teardown();
        });
        if let Err(msg) = r {
            first_div = Some(json!({"step": 0, "what": "panic", "message": msg}));
        }
        if has_fault && has_obs {
            nontrivial += 1;
        }
        if samples.is_empty() {
            let labels: Vec<Value> = entries.iter().map(|e| e["l"].clone()).collect();
            samples.push(json!({"behaviour_labels": labels, "matched": first_div.is_none()}));
        }
        if let Some(mut d) = first_div {
            divergent += 1;
            if divergences.len() < 40 {
                let tp = format!("{}/div_{}_{}.ndjson", traces, std::process::id(), line_no + 1);
                // the PropSpec trace needs no dump
                write_ndjson(&tp, &events);
                let m = d.as_object_mut().unwrap();
                m.insert("line".into(), json!(line_no + 1));
                m.insert("trace".into(), json!(tp));
                m.insert("behaviour".into(), Value::Array(entries.iter().map(|e| e["l"].clone()).collect()));
                divergences.push(d);
            }
        }
    }
    let summary = json!({"behaviours": behaviours, "steps": steps, "nontrivial": nontrivial, "divergent": divergent,
        "divergences": divergences, "samples": samples});
    std::fs::write(&out, serde_json::to_string(&summary).unwrap()).expect("write summary");
    println!("replayed {behaviours} behaviours ({steps} steps), {divergent} divergent");
}

/// Execute a list of labels (no predictions) and record the events: used for
/// corpus witnesses and for `--replay` of behaviours.
fn run_labels(args: &[String]) {
    let cfg = Cfg::from_args(args);
    let inp = arg(args, "in").expect("in=");
    let out = arg(args, "out").expect("out=");
    let text = std::fs::read_to_string(&inp).expect("read labels");
    let mut events: Vec<Value> = Vec::new();
    for line in text.lines() {
        if line.trim().is_empty() {
            continue;
        }
        let labels: Value = serde_json::from_str(line).expect("labels json");
        events.push(json!({"ev": "reset", "cfg": cfg.json()}));
        let r = catch(|| {
            let mut evs = Vec::new();
            let mut w = World::new(&cfg);
            for l in labels.as_array().unwrap() {
                let l = if l.get("l").is_some() { &l["l"] } else { l };
                let a = l["a"].as_str().unwrap_or("");
                if a == "poll" {
                    continue; // completions are observed by the automatic poll below
                }
                if let Some(e) = exec(&mut w, l) {
                    evs.extend(e);
                    if a == "deliver" || a == "egress" {
                        evs.extend(w.poll_connects());
                    }
                }
            }
            w.teardown();
            evs
        });
        match r {
            Ok(e) => events.extend(e),
            Err(m) => events.push(json!({"ev": "panic", "message": m})),
        }
    }
    write_ndjson(&out, &events);
    println!("executed {} events", events.len());
}

// ---------------------------------------------------------------------------
// seeded random walks

struct RCfg {
    nconn: usize,
    maxdrops: u32,
    maxage: u32,
    maxbytes: usize,
    wmax: usize,
    rmax: usize,
    steps: usize,
    listen_first: bool,
    idle_rounds: usize,
    closeprob: u32,
}

fn random_run(cfg: &Cfg, rc: &RCfg, rng: &mut StdRng, events: &mut Vec<Value>) {
    let mut w = World::new(cfg);
    let mut drops = 0u32;
    let mut natt = 0usize;
    let mut listened = false;
    let mut lsn_dropped = false;
    let mut eps: Vec<(i64, String)> = Vec::new(); // held endpoints
    let push_polls = |w: &mut World, events: &mut Vec<Value>, eps: &mut Vec<(i64, String)>| {
        for e in w.poll_connects() {
            if e["res"] == "ok" {
                eps.push((e["lp"].as_i64().unwrap(), "c".into()));
            }
            events.push(e);
        }
    };
    if rc.listen_first {
        events.push(w.listen());
        listened = true;
    }
    let total = rc.steps;
    for step in 0..total {
        let drain = step * 4 >= total * 3; // last quarter: let everything settle
        let must_move = w.wire.iter().any(|x| x.1 >= rc.maxage);
        let r: u32 = rng.random_range(0..100);
        if must_move || (!w.wire.is_empty() && r < 38) {
            let i = if must_move {
                w.wire.iter().position(|x| x.1 >= rc.maxage).unwrap() + 1
            } else if rng.random_range(0..3) == 0 {
                rng.random_range(1..=w.wire.len())
            } else {
                1
            };
            if drops < rc.maxdrops && !drain && rng.random_range(0..8) == 0 {
                drops += 1;
                events.push(w.drop_pk(i).unwrap());
            } else {
                events.push(w.deliver(i).unwrap());
                push_polls(&mut w, events, &mut eps);
            }
            continue;
        }
        if r < 62 || drain && r < 80 {
            events.push(w.egress());
            push_polls(&mut w, events, &mut eps);
            continue;
        }
        // application step
        let k: u32 = rng.random_range(0..100);
        if !listened && k < 30 {
            events.push(w.listen());
            listened = true;
        } else if natt < rc.nconn && k < 18 && !drain {
            natt += 1;
            events.push(w.connect());
        } else if k < 22 && !drain {
            let pend: Vec<usize> = w.clients.iter().enumerate().filter(|(_, c)| matches!(c, Client::Pending(_))).map(|(i, _)| i + 1).collect();
            if !pend.is_empty() && rng.random_range(0..3) == 0 {
                let c = pend[rng.random_range(0..pend.len())];
                events.push(w.cancel(c).unwrap());
            }
        } else if k < 40 {
            if let Some(e) = w.accept() {
                eps.push((e["pp"].as_i64().unwrap(), "s".into()));
                events.push(e);
            }
        } else if k < 42 && listened && !lsn_dropped && !drain && rng.random_range(0..4) == 0 {
            lsn_dropped = true;
            events.push(w.droplistener());
        } else if !eps.is_empty() {
            let (p, side) = eps[rng.random_range(0..eps.len())].clone();
            let kk: u32 = rng.random_range(0..100);
            if kk < 40 {
                let n = rng.random_range(1..=rc.rmax);
                if let Some(e) = w.read(p, &side, n) {
                    events.push(e);
                }
            } else if kk < 86 && !drain {
                let done = *w.written.get(&(p, side.clone())).unwrap_or(&0);
                if done < rc.maxbytes {
                    let n = rng.random_range(1..=rc.wmax).min(rc.maxbytes - done);
                    let data = w.next_bytes(p, &side, n);
                    // one write in three is vectored (2-3 slices)
                    let e = if n >= 2 && rng.random_range(0..3) == 0 {
                        let k = rng.random_range(2..=3);
                        w.writev(p, &side, &data, k)
                    } else {
                        w.write(p, &side, &data)
                    };
                    if let Some(e) = e {
                        events.push(e);
                    }
                }
            } else if kk < 91 {
                if let Some(e) = w.shutdown(p, &side) {
                    events.push(e);
                }
            } else if !drain || rng.random_range(0..3) == 0 {
                if let Some(e) = w.close(p, &side) {
                    events.push(e);
                    eps.retain(|x| !(x.0 == p && x.1 == side));
                }
            }
        }
    }
    settle(&mut w, events, &mut eps, rc);
    let _ = w.rcap;
    w.teardown();
}

fn poll_into(w: &mut World, events: &mut Vec<Value>, eps: &mut Vec<(i64, String)>) {
    for e in w.poll_connects() {
        if e["res"] == "ok" {
            eps.push((e["lp"].as_i64().unwrap(), "c".into()));
        }
        events.push(e);
    }
}

/// Deliver everything, idle until every retransmit budget has run out, accept what is
/// queued, then every reader reads until it blocks / sees EOF / an error. Twice.
fn settle(w: &mut World, events: &mut Vec<Value>, eps: &mut Vec<(i64, String)>, rc: &RCfg) {
    for _round in 0..2 {
        let mut idle = 0;
        let mut guard = 0;
        while idle < rc.idle_rounds && guard < 400 {
            guard += 1;
            while !w.wire.is_empty() {
                events.push(w.deliver(1).unwrap());
                poll_into(w, events, eps);
            }
            let e = w.egress();
            let quiet = e["pk"].as_array().unwrap().is_empty();
            events.push(e);
            poll_into(w, events, eps);
            idle = if quiet { idle + 1 } else { 0 };
        }
        while let Some(e) = w.accept() {
            eps.push((e["pp"].as_i64().unwrap(), "s".into()));
            events.push(e);
        }
        for (p, side) in eps.clone() {
            for _ in 0..(2 * rc.maxbytes + 4) {
                match w.read(p, &side, rc.rmax.max(1)) {
                    Some(e) => {
                        let res = e["res"].as_str().unwrap_or("").to_string();
                        events.push(e);
                        if res != "data" {
                            break;
                        }
                    }
                    None => break,
                }
            }
        }
    }
}

/// Deliver the packets in flight in a seeded order, dropping at most `budget` of them.
fn flush_wire(w: &mut World, events: &mut Vec<Value>, eps: &mut Vec<(i64, String)>, rng: &mut StdRng, drops: &mut u32, budget: u32, pdrop: u32) {
    while !w.wire.is_empty() {
        let i = rng.random_range(1..=w.wire.len());
        if *drops < budget && rng.random_range(0..100) < pdrop {
            *drops += 1;
            events.push(w.drop_pk(i).unwrap());
        } else {
            events.push(w.deliver(i).unwrap());
            poll_into(w, events, eps);
        }
    }
}

/// Directed choreography 1: data in both directions and crossing closes (simultaneous close),
/// with at most `maxdrops` losses placed by the seed.
fn simclose_run(cfg: &Cfg, rc: &RCfg, rng: &mut StdRng, events: &mut Vec<Value>) {
    let mut w = World::new(cfg);
    let mut eps: Vec<(i64, String)> = Vec::new();
    let mut drops = 0u32;
    events.push(w.listen());
    events.push(w.connect());
    for _ in 0..8 {
        events.push(w.egress());
        poll_into(&mut w, events, &mut eps);
        flush_wire(&mut w, events, &mut eps, rng, &mut drops, 0, 0);
        if let Some(e) = w.accept() {
            eps.push((e["pp"].as_i64().unwrap(), "s".into()));
            events.push(e);
        }
        if eps.len() == 2 {
            break;
        }
    }
    if eps.len() == 2 {
        let p = eps[0].0;
        // both sides write
        for side in ["c", "s"] {
            let n = rng.random_range(0..=rc.wmax.min(rc.maxbytes));
            if n > 0 {
                let data = w.next_bytes(p, side, n);
                if let Some(e) = w.write(p, side, &data) {
                    events.push(e);
                }
            }
        }
        if rng.random_range(0..3) == 0 {
            events.push(w.egress());
            flush_wire(&mut w, events, &mut eps, rng, &mut drops, rc.maxdrops, 25);
        }
        // crossing closes: shutdown (handle kept, reads continue) or drop of the stream
        let mut order = ["c", "s"];
        if rng.random_range(0..2) == 0 {
            order.swap(0, 1);
        }
        for (k, side) in order.iter().enumerate() {
            if rng.random_range(0..100) < rc.closeprob {
                if let Some(e) = w.close(p, side) {
                    events.push(e);
                    eps.retain(|x| !(x.0 == p && x.1 == *side));
                }
            } else if let Some(e) = w.shutdown(p, side) {
                events.push(e);
            }
            if k == 0 && rng.random_range(0..4) == 0 {
                events.push(w.egress());
            }
        }
        // the segments and FINs of both sides are emitted together and cross on the wire
        for _ in 0..rng.random_range(2..5) {
            events.push(w.egress());
            poll_into(&mut w, events, &mut eps);
            flush_wire(&mut w, events, &mut eps, rng, &mut drops, rc.maxdrops, 35);
        }
    }
    settle(&mut w, events, &mut eps, rc);
    w.teardown();
}

/// Directed choreography 2: the listener is dropped at a seeded point of a handshake in flight.
fn lsndrop_run(cfg: &Cfg, rc: &RCfg, rng: &mut StdRng, events: &mut Vec<Value>) {
    let mut w = World::new(cfg);
    let mut eps: Vec<(i64, String)> = Vec::new();
    let mut drops = 0u32;
    events.push(w.listen());
    let nconn = rng.random_range(1..=rc.nconn.max(1));
    for _ in 0..nconn {
        events.push(w.connect());
    }
    let cut = rng.random_range(0..7);
    let mut dropped = false;
    for step in 0..8 {
        if step == cut && !dropped {
            dropped = true;
            events.push(w.droplistener());
        }
        if step % 2 == 0 {
            events.push(w.egress());
            poll_into(&mut w, events, &mut eps);
        } else {
            // deliver what is in flight, oldest first, possibly keeping the newest back one round
            let keep = if rng.random_range(0..3) == 0 && w.wire.len() > 1 { 1 } else { 0 };
            while w.wire.len() > keep {
                events.push(w.deliver(1).unwrap());
                poll_into(&mut w, events, &mut eps);
            }
        }
        if !dropped && rng.random_range(0..4) == 0 {
            if let Some(e) = w.accept() {
                eps.push((e["pp"].as_i64().unwrap(), "s".into()));
                events.push(e);
            }
        }
    }
    if !dropped {
        events.push(w.droplistener());
    }
    flush_wire(&mut w, events, &mut eps, rng, &mut drops, 0, 0);
    // sometimes the connector gives up its streams as well
    if rng.random_range(0..2) == 0 {
        for (p, side) in eps.clone() {
            if let Some(e) = w.close(p, &side) {
                events.push(e);
                eps.retain(|x| !(x.0 == p && x.1 == side));
            }
        }
    }
    settle(&mut w, events, &mut eps, rc);
    w.teardown();
}

/// Directed choreography 3: one handshake segment (mostly the third, the connector's ACK) is
/// lost; by the seed the connector then stays idle (server speaks first) or writes.
fn hsackloss_run(cfg: &Cfg, rc: &RCfg, rng: &mut StdRng, events: &mut Vec<Value>) {
    let mut w = World::new(cfg);
    let mut eps: Vec<(i64, String)> = Vec::new();
    events.push(w.listen());
    events.push(w.connect());
    // which handshake segment is lost: 0 = SYN, 1 = SYN-ACK, 2.. = the final ACK
    let victim = match rng.random_range(0..6) {
        0 => "S",
        1 => "SA",
        _ => "A",
    };
    let mut lost = rc.maxdrops == 0;
    let idle_client = rng.random_range(0..4) != 0;
    for round in 0..(3 * rc.idle_rounds + 12) {
        events.push(w.egress());
        poll_into(&mut w, events, &mut eps);
        while !w.wire.is_empty() {
            let fl = w.pkt_json(&w.wire[0].0.clone())["fl"].as_str().unwrap_or("").to_string();
            if !lost && fl == victim {
                lost = true;
                events.push(w.drop_pk(1).unwrap());
            } else {
                events.push(w.deliver(1).unwrap());
                poll_into(&mut w, events, &mut eps);
            }
        }
        if !idle_client && round == 4 {
            if let Some((p, _)) = eps.iter().find(|e| e.1 == "c").cloned() {
                let data = w.next_bytes(p, "c", 1);
                if let Some(e) = w.write(p, "c", &data) {
                    events.push(e);
                }
            }
        }
        // the server application accepts as soon as something is offered, and speaks first
        if let Some(e) = w.accept() {
            let p = e["pp"].as_i64().unwrap();
            eps.push((p, "s".into()));
            events.push(e);
            let data = w.next_bytes(p, "s", 2.min(rc.maxbytes.max(1)));
            if let Some(e) = w.write(p, "s", &data) {
                events.push(e);
            }
        }
    }
    settle(&mut w, events, &mut eps, rc);
    w.teardown();
}

/// Directed choreography 4: the connector bursts right after the handshake (on the 65535
/// window of the SYN-ACK) into a receive buffer smaller than the burst, the pure ACKs that
/// announce what was taken are lost, and the reader stays idle while the retransmits arrive.
fn overlap_run(cfg: &Cfg, rc: &RCfg, rng: &mut StdRng, events: &mut Vec<Value>) {
    let mut w = World::new(cfg);
    let mut eps: Vec<(i64, String)> = Vec::new();
    let mut drops = 0u32;
    events.push(w.listen());
    events.push(w.connect());
    for _ in 0..8 {
        events.push(w.egress());
        poll_into(&mut w, events, &mut eps);
        flush_wire(&mut w, events, &mut eps, rng, &mut drops, 0, 0);
        if let Some(e) = w.accept() {
            eps.push((e["pp"].as_i64().unwrap(), "s".into()));
            events.push(e);
        }
        if eps.len() == 2 {
            break;
        }
    }
    if eps.len() == 2 {
        let p = eps[0].0;
        let burst = rng.random_range(1..=rc.wmax.max(1));
        let data = w.next_bytes(p, "c", burst);
        if let Some(e) = w.write(p, "c", &data) {
            events.push(e);
        }
        let pdrop = 40 + rng.random_range(0..50);
        for round in 0..(2 * rc.idle_rounds + 4) {
            events.push(w.egress());
            poll_into(&mut w, events, &mut eps);
            // data reaches the receiver in order; pure ACKs coming back are lost by the seed
            while !w.wire.is_empty() {
                let pj = w.pkt_json(&w.wire[0].0.clone());
                let pure_ack = pj["src"] == 2 && pj["fl"] == "A";
                if pure_ack && drops < rc.maxdrops && rng.random_range(0..100) < pdrop {
                    drops += 1;
                    events.push(w.drop_pk(1).unwrap());
                } else {
                    events.push(w.deliver(1).unwrap());
                    poll_into(&mut w, events, &mut eps);
                }
            }
            // a slow reader: an occasional small read late in the run
            if round > rc.idle_rounds && rng.random_range(0..5) == 0 {
                if let Some(e) = w.read(p, "s", 1) {
                    events.push(e);
                }
            }
        }
    }
    settle(&mut w, events, &mut eps, rc);
    w.teardown();
}

/// Canonical handshake of one connection with immediate delivery; returns the client port.
fn establish(w: &mut World, events: &mut Vec<Value>, eps: &mut Vec<(i64, String)>) -> Option<i64> {
    events.push(w.connect());
    let want = eps.len() + 2;
    for _ in 0..8 {
        events.push(w.egress());
        poll_into(w, events, eps);
        while !w.wire.is_empty() {
            events.push(w.deliver(1).unwrap());
            poll_into(w, events, eps);
        }
        if let Some(e) = w.accept() {
            eps.push((e["pp"].as_i64().unwrap(), "s".into()));
            events.push(e);
        }
        if eps.len() >= want {
            return Some(eps[eps.len() - 1].0);
        }
    }
    None
}

/// Directed choreography 5: constant delay of `maxage` rounds per packet, no loss, and a writer
/// that puts one small record on the wire every round for longer than any retransmit budget
/// (every ACK it sees is partial).
fn pipeline_run(cfg: &Cfg, rc: &RCfg, rng: &mut StdRng, events: &mut Vec<Value>) {
    let mut w = World::new(cfg);
    let mut eps: Vec<(i64, String)> = Vec::new();
    events.push(w.listen());
    let delay = rc.maxage;
    if let Some(p) = establish(&mut w, events, &mut eps) {
        let (wside, rside) = if rng.random_range(0..2) == 0 { ("c", "s") } else { ("s", "c") };
        let rounds = 2 * rc.idle_rounds + 6 + rng.random_range(0..6);
        for _ in 0..rounds {
            let n = rng.random_range(1..=rc.wmax.max(1));
            let data = w.next_bytes(p, wside, n);
            if let Some(e) = w.write(p, wside, &data) {
                events.push(e);
            }
            events.push(w.egress());
            poll_into(&mut w, events, &mut eps);
            // constant delay: a packet is handed over when it has spent `delay` rounds in flight
            while let Some(i) = w.wire.iter().position(|x| x.1 >= delay) {
                events.push(w.deliver(i + 1).unwrap());
                poll_into(&mut w, events, &mut eps);
            }
            if let Some(e) = w.read(p, rside, rc.rmax.max(1)) {
                events.push(e);
            }
        }
        if let Some(e) = w.shutdown(p, wside) {
            events.push(e);
        }
    }
    settle(&mut w, events, &mut eps, rc);
    w.teardown();
}

/// Directed choreography 6: data and FIN of the peer have arrived but are unread when the TCB
/// is aborted (RST because the peer dropped its stream with unread data, or retransmit
/// exhaustion of our own direction); only then the application reads.
fn abortread_run(cfg: &Cfg, rc: &RCfg, rng: &mut StdRng, events: &mut Vec<Value>) {
    let mut w = World::new(cfg);
    let mut eps: Vec<(i64, String)> = Vec::new();
    events.push(w.listen());
    if let Some(p) = establish(&mut w, events, &mut eps) {
        let (a, b) = if rng.random_range(0..2) == 0 { ("c", "s") } else { ("s", "c") };
        let by_rst = rng.random_range(0..3) != 0;
        let flush = |w: &mut World, events: &mut Vec<Value>, eps: &mut Vec<(i64, String)>, lose_from: Option<u8>| {
            events.push(w.egress());
            poll_into(w, events, eps);
            while !w.wire.is_empty() {
                let src = w.pkt_json(&w.wire[0].0.clone())["src"].as_u64().unwrap_or(0) as u8;
                if lose_from == Some(src) {
                    events.push(w.drop_pk(1).unwrap());
                } else {
                    events.push(w.deliver(1).unwrap());
                    poll_into(w, events, eps);
                }
            }
        };
        if by_rst {
            // a writes something b never reads (so that b's drop resets the connection)
            let data = w.next_bytes(p, a, 1);
            if let Some(e) = w.write(p, a, &data) {
                events.push(e);
            }
            flush(&mut w, events, &mut eps, None);
        }
        // b sends its data and (mostly) its FIN; a does not read
        let n = rng.random_range(1..=rc.wmax.max(1));
        let data = w.next_bytes(p, b, n);
        if let Some(e) = w.write(p, b, &data) {
            events.push(e);
        }
        if rng.random_range(0..5) != 0 {
            if let Some(e) = w.shutdown(p, b) {
                events.push(e);
            }
        }
        flush(&mut w, events, &mut eps, None);
        flush(&mut w, events, &mut eps, None);
        if by_rst {
            if let Some(e) = w.close(p, b) {
                events.push(e);
                eps.retain(|x| !(x.0 == p && x.1 == b));
            }
            flush(&mut w, events, &mut eps, None);
        } else {
            // everything a sends from now on is lost until it gives up
            let data = w.next_bytes(p, a, 1);
            if let Some(e) = w.write(p, a, &data) {
                events.push(e);
            }
            let ahost = if a == "c" { 1 } else { 2 };
            for _ in 0..(rc.idle_rounds + 2) {
                flush(&mut w, events, &mut eps, Some(ahost));
            }
        }
        // only now a reads
        for _ in 0..3 {
            match w.read(p, a, rc.rmax.max(1)) {
                Some(e) => {
                    let res = e["res"].as_str().unwrap_or("").to_string();
                    events.push(e);
                    if res != "data" {
                        break;
                    }
                }
                None => break,
            }
        }
    }
    settle(&mut w, events, &mut eps, rc);
    w.teardown();
}

/// Directed choreography 7: more overlapping handshakes than the backlog, a partly full accept
/// queue, and no accept until the end.
fn backlog_run(cfg: &Cfg, rc: &RCfg, rng: &mut StdRng, events: &mut Vec<Value>) {
    let mut w = World::new(cfg);
    let mut eps: Vec<(i64, String)> = Vec::new();
    let mut drops = 0u32;
    events.push(w.listen());
    let first = rng.random_range(0..cfg.backlog.max(1));
    let round = |w: &mut World, events: &mut Vec<Value>, eps: &mut Vec<(i64, String)>, rng: &mut StdRng, drops: &mut u32| {
        events.push(w.egress());
        poll_into(w, events, eps);
        flush_wire(w, events, eps, rng, drops, 0, 0);
    };
    // some handshakes complete first (they sit in the accept queue) ...
    for _ in 0..first {
        events.push(w.connect());
        for _ in 0..3 {
            round(&mut w, events, &mut eps, rng, &mut drops);
        }
    }
    // ... then the rest overlap
    for _ in first..rc.nconn {
        events.push(w.connect());
        if rng.random_range(0..4) == 0 {
            round(&mut w, events, &mut eps, rng, &mut drops);
        }
    }
    for _ in 0..(rc.idle_rounds + 4) {
        round(&mut w, events, &mut eps, rng, &mut drops);
    }
    settle(&mut w, events, &mut eps, rc);
    w.teardown();
}

/// Directed choreography 8: accept futures with their own wakers; an earlier one is polled once
/// and dropped, a later one is parked when the connection arrives.
fn acceptwake_run(cfg: &Cfg, rc: &RCfg, rng: &mut StdRng, events: &mut Vec<Value>) {
    let mut w = World::new(cfg);
    let mut eps: Vec<(i64, String)> = Vec::new();
    events.push(w.listen());
    let nstale = rng.random_range(0..3);
    let mut id = 0u64;
    for _ in 0..nstale {
        id += 1;
        events.extend(w.accept_park(id));
        if let Some(e) = w.accept_drop(id) {
            events.push(e);
        }
    }
    id += 1;
    events.extend(w.accept_park(id));
    let nconn = rng.random_range(1..=rc.nconn.max(1));
    for _ in 0..nconn {
        events.push(w.connect());
    }
    for _ in 0..(2 * rc.idle_rounds + 6) {
        events.push(w.egress());
        poll_into(&mut w, events, &mut eps);
        events.push(w.wakes());
        while !w.wire.is_empty() {
            events.push(w.deliver(1).unwrap());
            poll_into(&mut w, events, &mut eps);
        }
        // a task whose waker fired polls its accept again (and parks again if nothing is left)
        for e in w.accept_repoll() {
            if e["ev"] == "accept" {
                eps.push((e["pp"].as_i64().unwrap(), "s".into()));
            }
            events.push(e);
        }
    }
    for (a, _) in w.parked.clone() {
        events.push(json!({"ev": "aunpark", "a": a, "why": "end"}));
    }
    w.parked.clear();
    settle(&mut w, events, &mut eps, rc);
    w.teardown();
}

/// Directed choreography 9: the connector host also holds a loopback connection (created
/// first) with data pending in the same egress pass as the cross-host connection. Loopback
/// packets fold back inside egress; only the cross-host packets are seen and judged.
fn lomss_run(cfg: &Cfg, rc: &RCfg, rng: &mut StdRng, events: &mut Vec<Value>) {
    let mut w = World::new(cfg);
    let mut eps: Vec<(i64, String)> = Vec::new();
    let ok = w.lo_setup();
    events.push(w.listen());
    if let (true, Some(p)) = (ok, establish(&mut w, events, &mut eps)) {
        for _ in 0..(4 + rng.random_range(0..4)) {
            w.lo_traffic(rng.random_range(1..=64));
            let n = rng.random_range(1..=rc.wmax.max(1));
            let data = w.next_bytes(p, "c", n);
            if let Some(e) = w.write(p, "c", &data) {
                events.push(e);
            }
            events.push(w.egress());
            poll_into(&mut w, events, &mut eps);
            while !w.wire.is_empty() {
                events.push(w.deliver(1).unwrap());
                poll_into(&mut w, events, &mut eps);
            }
            if let Some(e) = w.read(p, "s", rc.rmax.max(1)) {
                events.push(e);
            }
        }
    }
    settle(&mut w, events, &mut eps, rc);
    w.teardown();
}

/// Directed choreography 10: `backlog` handshakes die at the listener (connect cancelled while the
/// SYN is in flight, the SYN-ACK is answered with RST), the wire goes quiet, then one more connect.
fn deadhs_run(cfg: &Cfg, rc: &RCfg, rng: &mut StdRng, events: &mut Vec<Value>) {
    let mut w = World::new(cfg);
    let mut eps: Vec<(i64, String)> = Vec::new();
    events.push(w.listen());
    let dead = cfg.backlog + rng.random_range(0..2);
    for _ in 0..dead {
        events.push(w.connect());
        let c = w.clients.len();
        events.push(w.egress());
        poll_into(&mut w, events, &mut eps);
        // by the seed the connect is cancelled before or after its SYN reaches the listener
        let early = rng.random_range(0..3) == 0;
        if early {
            if let Some(e) = w.cancel(c) {
                events.push(e);
            }
        }
        while !w.wire.is_empty() {
            events.push(w.deliver(1).unwrap());
            poll_into(&mut w, events, &mut eps);
        }
        if !early {
            if let Some(e) = w.cancel(c) {
                events.push(e);
            }
        }
        for _ in 0..3 {
            events.push(w.egress());
            poll_into(&mut w, events, &mut eps);
            while !w.wire.is_empty() {
                events.push(w.deliver(1).unwrap());
                poll_into(&mut w, events, &mut eps);
            }
        }
    }
    // quiet long enough for anything left at the listener to run out of retransmits
    for _ in 0..(rc.idle_rounds + 1) {
        events.push(w.egress());
        poll_into(&mut w, events, &mut eps);
        while !w.wire.is_empty() {
            events.push(w.deliver(1).unwrap());
            poll_into(&mut w, events, &mut eps);
        }
    }
    let _ = establish(&mut w, events, &mut eps);
    settle(&mut w, events, &mut eps, rc);
    w.teardown();
}

/// Directed choreography 11: a stream is shut down or dropped while bytes it wrote are on the
/// wire / not yet acknowledged; the peer reads to the end and closes too.
fn closeinflight_run(cfg: &Cfg, rc: &RCfg, rng: &mut StdRng, events: &mut Vec<Value>) {
    let mut w = World::new(cfg);
    let mut eps: Vec<(i64, String)> = Vec::new();
    events.push(w.listen());
    if let Some(p) = establish(&mut w, events, &mut eps) {
        let (a, b) = if rng.random_range(0..2) == 0 { ("c", "s") } else { ("s", "c") };
        let n = rng.random_range(1..=rc.wmax.max(1));
        let data = w.next_bytes(p, a, n);
        if let Some(e) = w.write(p, a, &data) {
            events.push(e);
        }
        events.push(w.egress());
        // by the seed the segment is still in flight, or delivered but its ACK has not left yet
        if rng.random_range(0..2) == 0 {
            while !w.wire.is_empty() {
                events.push(w.deliver(1).unwrap());
            }
        }
        let dropped = rng.random_range(0..2) == 0;
        if dropped {
            if let Some(e) = w.close(p, a) {
                events.push(e);
                eps.retain(|x| !(x.0 == p && x.1 == a));
            }
        } else if let Some(e) = w.shutdown(p, a) {
            events.push(e);
        }
        for _ in 0..(rc.idle_rounds + 2) {
            events.push(w.egress());
            while !w.wire.is_empty() {
                events.push(w.deliver(1).unwrap());
            }
            if let Some(e) = w.read(p, b, rc.rmax.max(1)) {
                events.push(e);
            }
        }
        for side in [b, a] {
            if let Some(e) = w.close(p, side) {
                events.push(e);
                eps.retain(|x| !(x.0 == p && x.1 == side));
            }
        }
    }
    settle(&mut w, events, &mut eps, rc);
    w.teardown();
}

/// Directed choreography 12: the connector bursts more than the acceptor's receive cap on the
/// 65535 window of the SYN-ACK, the ACKs shrink the window below what is in flight, and the
/// connector writes again before the retransmit timer rewinds (window shrink with new data).
fn shrink_run(cfg: &Cfg, rc: &RCfg, rng: &mut StdRng, events: &mut Vec<Value>) {
    let mut w = World::new(cfg);
    let mut eps: Vec<(i64, String)> = Vec::new();
    events.push(w.listen());
    if let Some(p) = establish(&mut w, events, &mut eps) {
        let burst = rng.random_range((cfg.rcap + 1).min(cfg.scap)..=cfg.scap);
        let data = w.next_bytes(p, "c", burst);
        if let Some(e) = w.write(p, "c", &data) {
            events.push(e);
        }
        events.push(w.egress());
        // the data reaches the acceptor (in order, or the first segment only, by the seed)
        let all = rng.random_range(0..3) != 0;
        let mut first = true;
        while !w.wire.is_empty() && (all || first) {
            events.push(w.deliver(1).unwrap());
            first = false;
        }
        events.push(w.egress());
        // its ACKs (window = room left, possibly 0) reach the connector
        while !w.wire.is_empty() {
            events.push(w.deliver(1).unwrap());
        }
        // new data before the rewind
        let more = rng.random_range(1..=rc.wmax.max(1));
        let data = w.next_bytes(p, "c", more);
        if let Some(e) = w.write(p, "c", &data) {
            events.push(e);
        }
        if rng.random_range(0..3) == 0 {
            if let Some(e) = w.shutdown(p, "c") {
                events.push(e);
            }
        }
        events.push(w.egress());
        while !w.wire.is_empty() {
            events.push(w.deliver(1).unwrap());
        }
        for _ in 0..3 {
            if let Some(e) = w.read(p, "s", rc.rmax.max(1)) {
                events.push(e);
            }
            events.push(w.egress());
            while !w.wire.is_empty() {
                events.push(w.deliver(1).unwrap());
            }
        }
    }
    settle(&mut w, events, &mut eps, rc);
    w.teardown();
}

fn random(args: &[String]) {
    let cfg = Cfg::from_args(args);
    let seed = arg_u64(args, "seed", 1);
    let runs = arg_u64(args, "runs", 10);
    let out = arg(args, "out").expect("out=");
    let rc = RCfg {
        nconn: arg_u64(args, "nconn", 2) as usize,
        maxdrops: arg_u64(args, "maxdrops", 1) as u32,
        maxage: arg_u64(args, "maxage", 2) as u32,
        maxbytes: arg_u64(args, "maxbytes", 12) as usize,
        wmax: arg_u64(args, "wmax", 5) as usize,
        rmax: arg_u64(args, "rmax", 4) as usize,
        steps: arg_u64(args, "steps", 120) as usize,
        listen_first: arg_u64(args, "listenfirst", 1) == 1,
        idle_rounds: (cfg.retxt * (cfg.retxmax + 1) + 2) as usize,
        closeprob: arg_u64(args, "closeprob", 30) as u32,
    };
    let mode = arg(args, "mode").unwrap_or_else(|| "walk".to_string());
    let wild = arg_u64(args, "wild", 0);
    let mut events: Vec<Value> = Vec::new();
    let mut panics = 0;
    for r in 0..runs {
        let mut rng = StdRng::seed_from_u64(seed.wrapping_mul(1_000_003).wrapping_add(r));
        events.push(json!({"ev": "reset", "cfg": cfg.json(), "run": r}));
        let mut evs = Vec::new();
        let mut cfg = cfg.clone();
        if wild == 2 {
            cfg.wild = rng.random_range(0..2) == 0;
        }
        // `mode=a+b+c`: the runs cycle through the listed choreographies
        let modes: Vec<&str> = mode.split('+').collect();
        let this_mode = modes[(r as usize) % modes.len()];
        let res = catch(|| match this_mode {
            "simclose" => simclose_run(&cfg, &rc, &mut rng, &mut evs),
            "lsndrop" => lsndrop_run(&cfg, &rc, &mut rng, &mut evs),
            "hsackloss" => hsackloss_run(&cfg, &rc, &mut rng, &mut evs),
            "overlap" => overlap_run(&cfg, &rc, &mut rng, &mut evs),
            "pipeline" => pipeline_run(&cfg, &rc, &mut rng, &mut evs),
            "abortread" => abortread_run(&cfg, &rc, &mut rng, &mut evs),
            "backlog" => backlog_run(&cfg, &rc, &mut rng, &mut evs),
            "acceptwake" => acceptwake_run(&cfg, &rc, &mut rng, &mut evs),
            "lomss" => lomss_run(&cfg, &rc, &mut rng, &mut evs),
            "deadhs" => deadhs_run(&cfg, &rc, &mut rng, &mut evs),
            "closeinflight" => closeinflight_run(&cfg, &rc, &mut rng, &mut evs),
            "shrink" => shrink_run(&cfg, &rc, &mut rng, &mut evs),
            _ => random_run(&cfg, &rc, &mut rng, &mut evs),
        });
        events.extend(evs);
        if let Err(m) = res {
            panics += 1;
            events.push(json!({"ev": "panic", "message": m}));
        }
    }
    write_ndjson(&out, &events);
    println!("{} runs, {} events, {} panics", runs, events.len(), panics);
}

/// 4-tuple reuse: one cancelled connect whose SYN-ACK is answered with RST, then n
/// sequential connect / accept / write / read / close cycles. PropSpec-level events only
/// (no dump), with a `reset` between cycles that keeps the kernels running.
fn reuse(args: &[String]) {
    let cfg = Cfg::from_args(args);
    let n = arg_u64(args, "n", 16500) as usize;
    let out = arg(args, "out").expect("out=");
    let mut events: Vec<Value> = Vec::new();
    let mut fails = 0usize;
    let r = catch(|| {
        let mut w = World::new(&cfg);
        let light = |mut e: Value| {
            let m = e.as_object_mut().unwrap();
            m.remove("dump");
            m.remove("ages");
            e
        };
        let mut run = |w: &mut World, events: &mut Vec<Value>, cancel: bool| -> bool {
            events.push(json!({"ev": "reset", "keep_kernel": true}));
            // ports are reported relative to this cycle's client port
            let base = w.clients.len();
            PORT_BASE.with(|b| b.set((base % 16384) as u16));
            let shift = |mut e: Value, _base: usize| {
                if let Some(c) = e.get_mut("c") {
                    *c = json!(1);
                }
                e
            };
            let mut ok = false;
            let mut push = |events: &mut Vec<Value>, e: Value| events.push(shift(light(e), base));
            if base == 0 {
                push(events, w.listen());
            } else {
                // the listener stays up across cycles: tell the PropSpec
                events.push(json!({"ev": "listen", "port": MODEL_LPORT, "obs": w.obs()}));
            }
            push(events, w.connect());
            let c = w.clients.len();
            for round in 0..12 {
                push(events, w.egress());
                for e in w.poll_connects() {
                    if e["res"] == "ok" {
                        ok = true;
                    }
                    push(events, e);
                }
                if cancel && round == 1 {
                    if let Some(e) = w.cancel(c) {
                        push(events, e);
                    }
                }
                while !w.wire.is_empty() {
                    let e = w.deliver(1).unwrap();
                    push(events, e);
                    for e in w.poll_connects() {
                        if e["res"] == "ok" {
                            ok = true;
                        }
                        push(events, e);
                    }
                }
                if round >= 3 && w.wire.is_empty() && (ok || cancel) {
                    break;
                }
            }
            if ok {
                if let Some(e) = w.accept() {
                    push(events, e);
                }
                let p = mport(EPH0 + ((c - 1) % 16384) as u16);
                debug_assert_eq!(p, 1);
                if let Some(e) = w.close(p, "c") {
                    push(events, e);
                }
                if let Some(e) = w.close(p, "s") {
                    push(events, e);
                }
                for _ in 0..4 {
                    push(events, w.egress());
                    while !w.wire.is_empty() {
                        let e = w.deliver(1).unwrap();
                        push(events, e);
                    }
                }
            }
            // forget finished client slots' futures but keep the count (ports follow the count)
            ok
        };
        run(&mut w, &mut events, true);
        for _ in 0..n {
            if !run(&mut w, &mut events, false) {
                fails += 1;
            }
        }
        w.teardown();
    });
    if let Err(m) = r {
        events.push(json!({"ev": "panic", "message": m}));
    }
    write_ndjson(&out, &events);
    println!("{} cycles, {} events, {} connects not ok", n, events.len(), fails);
}

/// Sequence-number wrap: the connector host's ISN counter (0x0100_0000 + k * 0x1_0000, one
/// per connect) is burnt with cancelled connects whose SYNs the wire discards unrecorded,
/// until the next connections start within 64 KiB of 2^32; then `conns` connections each move
/// `bytes` bytes connector -> acceptor (and a few back) over a lossless, undelayed wire and
/// close. PropSpec-level events only, one `reset` (kernel kept) per connection.
fn wrap(args: &[String]) {
    let cfg = Cfg::from_args(args);
    let out = arg(args, "out").expect("out=");
    let conns = arg_u64(args, "conns", 3) as usize;
    let bytes = arg_u64(args, "bytes", 66_000) as usize;
    let mut events: Vec<Value> = Vec::new();
    let r = catch(|| {
        let mut w = World::new(&cfg);
        let light = |mut e: Value| {
            let m = e.as_object_mut().unwrap();
            m.remove("dump");
            m.remove("ages");
            if let Some(c) = m.get_mut("c") {
                *c = json!(1);
            }
            e
        };
        // ISN of connect number k (0-based) is 0x0100_0000 + k * 0x1_0000: the last one below
        // 2^32 is k = 0xFEFF; start one connection earlier
        let burn = 0xFEFFusize - 1;
        let mut junk = Vec::new();
        for i in 0..burn {
            set_current(w.h1);
            let mut f: ConnFut = Box::pin(TcpStream::connect(SocketAddr::new(IP2, LPORT)));
            let _ = f.as_mut().poll(&mut cx());
            drop(f);
            w.clients.push(Client::Gone);
            if i % 512 == 0 {
                junk.clear();
                w.guard.egress_all(&mut junk); // the wire discards these SYNs
            }
        }
        junk.clear();
        w.guard.egress_all(&mut junk);
        let mut listened = false;
        for _ in 0..conns {
            events.push(json!({"ev": "reset", "keep_kernel": true}));
            let base = w.clients.len();
            PORT_BASE.with(|b| b.set((base % 16384) as u16));
            w.written.clear();
            if !listened {
                events.push(light(w.listen()));
                listened = true;
            } else {
                events.push(json!({"ev": "listen", "port": MODEL_LPORT, "obs": w.obs()}));
            }
            events.push(light(w.connect()));
            let mut eps: Vec<(i64, String)> = Vec::new();
            let pump = |w: &mut World, events: &mut Vec<Value>, eps: &mut Vec<(i64, String)>| {
                events.push(light(w.egress()));
                for e in w.poll_connects() {
                    if e["res"] == "ok" {
                        eps.push((e["lp"].as_i64().unwrap(), "c".into()));
                    }
                    events.push(light(e));
                }
                while !w.wire.is_empty() {
                    let e = w.deliver(1).unwrap();
                    events.push(light(e));
                    for e in w.poll_connects() {
                        if e["res"] == "ok" {
                            eps.push((e["lp"].as_i64().unwrap(), "c".into()));
                        }
                        events.push(light(e));
                    }
                }
            };
            for _ in 0..6 {
                pump(&mut w, &mut events, &mut eps);
                if let Some(e) = w.accept() {
                    eps.push((e["pp"].as_i64().unwrap(), "s".into()));
                    events.push(light(e));
                }
                if eps.len() == 2 {
                    break;
                }
            }
            if eps.len() < 2 {
                continue;
            }
            let p = eps[0].0;
            let mut sent = 0usize;
            let mut rounds = 0;
            let mut failed = false;
            while sent < bytes && rounds < 400 && !failed {
                rounds += 1;
                let n = (bytes - sent).min(cfg.scap);
                let data = w.next_bytes(p, "c", n);
                if let Some(e) = w.write(p, "c", &data) {
                    sent += e["n"].as_u64().unwrap_or(0) as usize;
                    let res = e["res"].as_str().unwrap_or("").to_string();
                    events.push(light(e));
                    if res != "ok" && res != "wouldblock" {
                        failed = true;
                    }
                }
                if rounds % 8 == 1 {
                    let data = w.next_bytes(p, "s", 3);
                    if let Some(e) = w.write(p, "s", &data) {
                        events.push(light(e));
                    }
                }
                for _ in 0..2 {
                    pump(&mut w, &mut events, &mut eps);
                    for side in ["s", "c"] {
                        if let Some(e) = w.read(p, side, cfg.rcap) {
                            events.push(light(e));
                        }
                    }
                }
            }
            for side in ["c", "s"] {
                if let Some(e) = w.shutdown(p, side) {
                    events.push(light(e));
                }
            }
            let quiet_target = (cfg.retxt * (cfg.retxmax + 1) + 2) as usize;
            let mut quiet = 0;
            let mut guard = 0;
            while quiet < quiet_target && guard < 200 {
                guard += 1;
                let before = events.len();
                pump(&mut w, &mut events, &mut eps);
                let e = &events[before];
                quiet = if e["pk"].as_array().map(|a| a.is_empty()).unwrap_or(false) { quiet + 1 } else { 0 };
            }
            for side in ["s", "c"] {
                for _ in 0..40 {
                    match w.read(p, side, cfg.rcap) {
                        Some(e) => {
                            let res = e["res"].as_str().unwrap_or("").to_string();
                            events.push(light(e));
                            if res != "data" {
                                break;
                            }
                        }
                        None => break,
                    }
                }
            }
            for side in ["c", "s"] {
                if let Some(e) = w.close(p, side) {
                    events.push(light(e));
                }
            }
            for _ in 0..3 {
                pump(&mut w, &mut events, &mut eps);
            }
        }
        w.teardown();
    });
    if let Err(m) = r {
        events.push(json!({"ev": "panic", "message": m}));
    }
    write_ndjson(&out, &events);
    println!("{} connections across the sequence wrap, {} events", conns, events.len());
}

/// Ephemeral-port wrap: `burn` cancelled connects advance the connector host's port cursor to the
/// top of the range (their SYNs are discarded by the wire, unrecorded), then `conns` connections are
/// opened at the same time across the wrap, accepted and closed. PropSpec-level events only.
fn portwrap(args: &[String]) {
    let cfg = Cfg::from_args(args);
    let out = arg(args, "out").expect("out=");
    let conns = arg_u64(args, "conns", 4) as usize;
    let burn = arg_u64(args, "burn", 16382) as usize;
    let mut events: Vec<Value> = Vec::new();
    let r = catch(|| {
        let mut w = World::new(&cfg);
        let light = |mut e: Value| {
            let m = e.as_object_mut().unwrap();
            m.remove("dump");
            m.remove("ages");
            e
        };
        let mut junk = Vec::new();
        for i in 0..burn {
            set_current(w.h1);
            let mut f: ConnFut = Box::pin(TcpStream::connect(SocketAddr::new(IP2, LPORT)));
            let _ = f.as_mut().poll(&mut cx());
            drop(f);
            if i % 512 == 0 {
                junk.clear();
                w.guard.egress_all(&mut junk);
            }
        }
        junk.clear();
        w.guard.egress_all(&mut junk);
        PORT_BASE.with(|b| b.set((burn % 16384) as u16));
        events.push(json!({"ev": "reset", "keep_kernel": true}));
        events.push(light(w.listen()));
        let mut eps: Vec<(i64, String)> = Vec::new();
        for _ in 0..conns {
            events.push(light(w.connect()));
        }
        let quiet_target = (cfg.retxt * (cfg.retxmax + 1) + 2) as usize;
        let pump = |w: &mut World, events: &mut Vec<Value>, eps: &mut Vec<(i64, String)>| -> bool {
            let e = w.egress();
            let quiet = e["pk"].as_array().map(|a| a.is_empty()).unwrap_or(false);
            events.push(light(e));
            let mut evs = Vec::new();
            poll_into(w, &mut evs, eps);
            while !w.wire.is_empty() {
                evs.push(w.deliver(1).unwrap());
                poll_into(w, &mut evs, eps);
            }
            while let Some(e) = w.accept() {
                eps.push((e["pp"].as_i64().unwrap(), "s".into()));
                evs.push(e);
            }
            events.extend(evs.into_iter().map(light));
            quiet
        };
        for _ in 0..6 {
            pump(&mut w, &mut events, &mut eps);
        }
        for (p, side) in eps.clone() {
            if let Some(e) = w.close(p, &side) {
                events.push(light(e));
            }
        }
        eps.clear();
        let mut quiet = 0;
        let mut guard = 0;
        while quiet < quiet_target && guard < 200 {
            guard += 1;
            quiet = if pump(&mut w, &mut events, &mut eps) { quiet + 1 } else { 0 };
        }
        w.teardown();
    });
    if let Err(m) = r {
        events.push(json!({"ev": "panic", "message": m}));
    }
    write_ndjson(&out, &events);
    println!("{} connections across the ephemeral-port wrap, {} events", conns, events.len());
}

fn main() {
    let args: Vec<String> = std::env::args().skip(1).collect();
    match args.first().map(|s| s.as_str()) {
        Some("replay") => replay(&args),
        Some("labels") => run_labels(&args),
        Some("random") => random(&args),
        Some("reuse") => reuse(&args),
        Some("wrap") => wrap(&args),
        Some("portwrap") => portwrap(&args),
        _ => {
            eprintln!("usage: ktcp replay|labels|random|reuse key=value ...");
            std::process::exit(2);
        }
    }
}
