//! Driver for the turmoil link layer (specs/toplink): C03, C08, C14.
//!
//! Modes
//!   replay in=<behaviours.ndjson> out=<summary.json> [traces=<dir>]
//!       every line is one TLC-generated behaviour of TopLinkGen; it is
//!       executed against the real `turmoil::Sim` and the observation after
//!       every step (application-level receipts with virtual timestamps,
//!       `Sim::links` contents) is compared with what TLC predicted.
//!       Divergent behaviours also get their recorded event trace written
//!       to <traces>/div-<k>.ndjson so the PropSpec can judge them.
//!   random seed=<s> runs=<n> n=<hosts> tick=<ms> gmin=<ms> gmax=<ms> mode=<part|hold|lat>
//!          out=<trace.ndjson>
//!       seeded random scenarios with real sampled latencies / fail rates;
//!       writes one concatenated event trace (runs separated by `reset`).
use rand::rngs::SmallRng;
use rand::{Rng, SeedableRng};
use serde_json::{json, Value};
use std::cell::RefCell;
use std::collections::{BTreeMap, VecDeque};
use std::net::{IpAddr, Ipv4Addr};
use std::rc::Rc;
use std::time::Duration;
use tokio::sync::Notify;
use vh::{rec, util};

const PORT: u16 = 9000;
const PORT_TCP: u16 = 9100;
/// `Sim::links` entries that carry no payload (TCP RST) are named by the stream they reset:
/// RST_BASE + (host of the destination << 16) + destination port.
const RST_BASE: u64 = 1 << 32;

#[derive(Clone, Debug)]
enum Cmd {
    Send { dst: usize, off: u64, #[allow(dead_code)] id: u64, probe: bool },
    Ctl { op: String, a: usize, b: usize },
}

#[derive(Default)]
struct Shared {
    cmds: Vec<VecDeque<Cmd>>, // index = host (1-based; slot 0 unused)
    warm: u64,                // warm-up offset in ms (one tick)
    next_id: u64,             // message ids are issued in send order
    ipv6: bool,
    n: usize,
    tcp_k: usize,             // half-open TCP streams prepared per ordered host pair (0 = none)
    ready: usize,             // puppets that finished preparing their streams
    // (sender host, local port of the stream) of every probe written so far, not yet seen reset
    probes: BTreeMap<(usize, u16), u64>,
}

fn hname(h: usize) -> String {
    format!("h{h}")
}

fn apply_ctl_host(op: &str, a: usize, b: usize) {
    let (a, b) = (hname(a), hname(b));
    match op {
        "partition" => turmoil::partition(a, b),
        "partition_oneway" => turmoil::partition_oneway(a, b),
        "repair" => turmoil::repair(a, b),
        "repair_oneway" => turmoil::repair_oneway(a, b),
        "hold" => turmoil::hold(a, b),
        "release" => turmoil::release(a, b),
        _ => panic!("unknown op {op}"),
    }
}

/// Controller-side call with the host pair named by literal IP address.
fn apply_ctl_sim_ip(sim: &turmoil::Sim<'_>, op: &str, a: usize, b: usize) {
    let (a, b) = (sim.lookup(hname(a)), sim.lookup(hname(b)));
    match op {
        "partition" => sim.partition(a, b),
        "partition_oneway" => sim.partition_oneway(a, b),
        "repair" => sim.repair(a, b),
        "repair_oneway" => sim.repair_oneway(a, b),
        "hold" => sim.hold(a, b),
        "release" => sim.release(a, b),
        _ => panic!("unknown op {op}"),
    }
}

/// Controller-side call with host *sets* named by regex.
fn apply_ctl_sim_sets(sim: &turmoil::Sim<'_>, op: &str, a: &[usize], b: &[usize]) {
    let re = |s: &[usize]| {
        let alt: Vec<String> = s.iter().map(|h| h.to_string()).collect();
        regex::Regex::new(&format!("^h({})$", alt.join("|"))).unwrap()
    };
    let (a, b) = (re(a), re(b));
    match op {
        "partition" => sim.partition(a, b),
        "partition_oneway" => sim.partition_oneway(a, b),
        "repair" => sim.repair(a, b),
        "repair_oneway" => sim.repair_oneway(a, b),
        "hold" => sim.hold(a, b),
        "release" => sim.release(a, b),
        _ => panic!("unknown op {op}"),
    }
}

fn apply_ctl_sim(sim: &turmoil::Sim<'_>, op: &str, a: usize, b: usize) {
    let (a, b) = (hname(a), hname(b));
    match op {
        "partition" => sim.partition(a, b),
        "partition_oneway" => sim.partition_oneway(a, b),
        "repair" => sim.repair(a, b),
        "repair_oneway" => sim.repair_oneway(a, b),
        "hold" => sim.hold(a, b),
        "release" => sim.release(a, b),
        _ => panic!("unknown op {op}"),
    }
}

async fn puppet(h: usize, shared: Rc<RefCell<Shared>>, notify: Rc<Notify>) -> turmoil::Result {
    let any = if shared.borrow().ipv6 {
        IpAddr::V6(std::net::Ipv6Addr::UNSPECIFIED)
    } else {
        IpAddr::V4(Ipv4Addr::UNSPECIFIED)
    };
    let sock = turmoil::net::UdpSocket::bind((any, PORT)).await?;
    // TCP "probe" traffic: streams whose remote end is already gone.  Every host accepts and
    // immediately drops; every host opens tcp_k streams to every other host and never reads them.
    // A byte written on such a stream is refused by the receiving host, which answers with an RST
    // from inside Link::deliver_messages.
    let (tcp_k, n) = (shared.borrow().tcp_k, shared.borrow().n);
    let mut streams: BTreeMap<usize, VecDeque<turmoil::net::TcpStream>> = BTreeMap::new();
    if tcp_k > 0 {
        let listener = turmoil::net::TcpListener::bind((any, PORT_TCP)).await?;
        tokio::task::spawn_local(async move {
            while let Ok((s, _)) = listener.accept().await {
                drop(s);
            }
        });
        notify.notified().await;
        for dst in (1..=n).filter(|d| *d != h) {
            for _ in 0..tcp_k {
                let s = turmoil::net::TcpStream::connect((hname(dst), PORT_TCP)).await?;
                streams.entry(dst).or_default().push_back(s);
            }
        }
        shared.borrow_mut().ready += 1;
    }
    let mut used: Vec<turmoil::net::TcpStream> = Vec::new();
    loop {
        notify.notified().await;
        rec::emit(json!({"ev":"wake","h":h}));
        let mut buf = [0u8; 16];
        while let Ok((n, _from)) = sock.try_recv_from(&mut buf) {
            let id = if n >= 2 { ((buf[0] as u64) << 8) | buf[1] as u64 } else { 0 };
            let at = turmoil::elapsed().as_millis() as u64 - shared.borrow().warm;
            rec::emit(json!({"ev":"recv","id":id,"h":h,"at":at}));
        }
        let cmds: Vec<Cmd> = shared.borrow_mut().cmds[h].drain(..).collect();
        let mut cur_off = 0u64;
        for c in cmds {
            match c {
                Cmd::Send { dst, off, id: _, probe } => {
                    if off > cur_off {
                        tokio::time::sleep(Duration::from_millis(off - cur_off)).await;
                        cur_off = off;
                    }
                    let t = turmoil::elapsed().as_millis() as u64 - shared.borrow().warm;
                    let id = {
                        let mut sh = shared.borrow_mut();
                        sh.next_id += 1;
                        sh.next_id
                    };
                    let payload = [(id >> 8) as u8, (id & 0xff) as u8];
                    let stream = if probe { streams.get_mut(&dst).and_then(|q| q.pop_front()) } else { None };
                    if let Some(st) = stream {
                        let port = st.local_addr().map(|a| a.port()).unwrap_or(0);
                        shared.borrow_mut().probes.insert((h, port), id);
                        rec::emit(json!({"ev":"send_begin","id":id,"src":h,"dst":dst,"t":t,"off":cur_off,"kind":"probe","port":port}));
                        let r = st.try_write(&payload);
                        rec::emit(json!({"ev":"send_end","id":id,"ok":r.is_ok()}));
                        used.push(st);
                    } else {
                        rec::emit(json!({"ev":"send_begin","id":id,"src":h,"dst":dst,"t":t,"off":cur_off}));
                        let r = sock.send_to(&payload, (hname(dst), PORT)).await;
                        rec::emit(json!({"ev":"send_end","id":id,"ok":r.is_ok()}));
                    }
                }
                Cmd::Ctl { op, a, b } => {
                    apply_ctl_host(&op, a, b);
                    rec::emit(json!({"ev":"ctl","op":op,"a":a,"b":b,"by":"host"}));
                }
            }
        }
    }
}

struct Run<'a> {
    sim: turmoil::Sim<'a>,
    shared: Rc<RefCell<Shared>>,
    notifies: Vec<Rc<Notify>>,
    n: usize,
    tick: u64,
    ip2h: BTreeMap<String, usize>,
    // harness-side mirror of the latency configuration it has set (observation of its own calls)
    gmin: u64,
    gmax: u64,
    lover: BTreeMap<(usize, usize), (u64, u64)>,
    nctl: u64,
}

#[derive(Clone)]
struct Cfg {
    n: usize,
    tick: u64,
    gmin: u64,
    gmax: u64,
    fail: f64,
    repair: f64,
    random_order: bool,
    seed: u64,
    curve: Option<f64>, // Sim::set_message_latency_curve (lambda of the exponential distribution)
    ipv6: bool,
    runtime_fail: bool, // the run may call the runtime fail-rate setters
    reg: Vec<usize>,    // registration order (hosts are numbered in address order)
    tcp_k: usize,       // half-open TCP streams per ordered pair for "probe" sends (0 = UDP only)
}

/// Name of a `Sim::links` entry: the id carried in the payload (datagrams, TCP data), or for a
/// payload-less TCP RST the stream it resets (see RST_BASE).
fn sent_name(sent: &turmoil::SentRef<'_>, ip2h: &BTreeMap<String, usize>) -> u64 {
    let s = format!("{}", sent.protocol());
    if s.trim() == "TCP RST" {
        let (_src, dst) = sent.pair();
        let h = *ip2h.get(&dst.ip().to_string()).unwrap_or(&0) as u64;
        return RST_BASE + (h << 16) + dst.port() as u64;
    }
    let bytes = util::parse_hex_payload(&s).unwrap_or_default();
    if bytes.len() >= 2 {
        ((bytes[0] as u64) << 8) | bytes[1] as u64
    } else {
        0
    }
}

fn pair(a: usize, b: usize) -> (usize, usize) {
    if a < b {
        (a, b)
    } else {
        (b, a)
    }
}

impl<'a> Run<'a> {
    fn new(cfg: &Cfg) -> Run<'a> {
        let mut b = turmoil::Builder::new();
        b.tick_duration(Duration::from_millis(cfg.tick))
            .min_message_latency(Duration::from_millis(cfg.gmin))
            .max_message_latency(Duration::from_millis(cfg.gmax))
            // with TCP probes the streams are prepared over a network that does not fail; the
            // configured fail rate is switched on when the trace starts
            .fail_rate(if cfg.tcp_k > 0 { 0.0 } else { cfg.fail })
            .repair_rate(cfg.repair)
            .rng_seed(cfg.seed)
            .simulation_duration(Duration::from_secs(3600));
        if cfg.random_order {
            b.enable_random_order();
        }
        if cfg.ipv6 {
            b.ip_version(turmoil::IpVersion::V6);
        }
        let mut sim = b.build();
        if let Some(l) = cfg.curve {
            sim.set_message_latency_curve(l);
        }
        let shared = Rc::new(RefCell::new(Shared {
            cmds: (0..=cfg.n).map(|_| VecDeque::new()).collect(),
            warm: cfg.tick,
            next_id: 0,
            ipv6: cfg.ipv6,
            n: cfg.n,
            tcp_k: cfg.tcp_k,
            ready: 0,
            probes: BTreeMap::new(),
        }));
        let mut notifies = vec![Rc::new(Notify::new())];
        let mut ip2h = BTreeMap::new();
        // addresses are handed out at the first lookup: h1 < h2 < ... in address order,
        // whatever the registration order is
        for h in 1..=cfg.n {
            ip2h.insert(sim.lookup(hname(h)).to_string(), h);
            notifies.push(Rc::new(Notify::new()));
        }
        for &h in &cfg.reg {
            let nt = notifies[h].clone();
            let sh = shared.clone();
            sim.host(hname(h), move || puppet(h, sh.clone(), nt.clone()));
        }
        // warm-up step: every puppet binds its socket and parks on its Notify
        sim.step().expect("warm-up step");
        if cfg.tcp_k > 0 {
            // second warm-up phase: the half-open streams are prepared over the healthy network;
            // the trace starts once every connect has completed and nothing is in flight any more
            for h in 1..=cfg.n {
                notifies[h].notify_one();
            }
            let mut quiet = 0;
            let mut steps = 1u64;
            while quiet < 3 {
                sim.step().expect("warm-up step");
                steps += 1;
                let mut inflight = 0;
                sim.links(|links| {
                    for link in links {
                        inflight += link.count();
                    }
                });
                let ready = shared.borrow().ready == cfg.n;
                quiet = if ready && inflight == 0 { quiet + 1 } else { 0 };
                assert!(steps < 20000, "warm-up did not settle");
            }
            shared.borrow_mut().warm = steps * cfg.tick;
            if cfg.fail > 0.0 {
                sim.set_fail_rate(cfg.fail);
            }
        }
        rec::take();
        rec::emit(json!({"ev":"reset","fail":cfg.fail > 0.0 || cfg.runtime_fail}));
        Run {
            sim,
            shared,
            notifies,
            n: cfg.n,
            tick: cfg.tick,
            ip2h,
            gmin: cfg.gmin,
            gmax: cfg.gmax,
            lover: BTreeMap::new(),
            nctl: 0,
        }
    }

    fn eff(&self, a: usize, b: usize) -> (u64, u64) {
        *self.lover.get(&pair(a, b)).unwrap_or(&(self.gmin, self.gmax))
    }

    fn ctl(&mut self, op: &str, a: usize, b: usize) {
        // alternate between naming the hosts by name and by literal address
        self.nctl += 1;
        if self.nctl % 2 == 0 {
            apply_ctl_sim_ip(&self.sim, op, a, b);
        } else {
            apply_ctl_sim(&self.sim, op, a, b);
        }
        rec::emit(json!({"ev":"ctl","op":op,"a":a,"b":b,"by":"ctl"}));
    }

    /// One call on host sets (regex): documented to act on every pair (x, y), x in a, y in b,
    /// x != y; recorded as that sequence of pair calls.
    fn ctl_sets(&mut self, op: &str, a: &[usize], b: &[usize]) {
        apply_ctl_sim_sets(&self.sim, op, a, b);
        for &x in a {
            for &y in b {
                if x != y {
                    rec::emit(json!({"ev":"ctl","op":op,"a":x,"b":y,"by":"ctl"}));
                }
            }
        }
    }

    fn set_link_latency(&mut self, a: usize, b: usize, v: u64) {
        self.sim
            .set_link_latency(hname(a), hname(b), Duration::from_millis(v));
        self.lover.insert(pair(a, b), (v, v));
        rec::emit(json!({"ev":"setlat","kind":"link","a":a,"b":b,"v":v}));
    }

    fn set_link_max_latency(&mut self, a: usize, b: usize, v: u64) {
        self.sim
            .set_link_max_message_latency(hname(a), hname(b), Duration::from_millis(v));
        let (mn, _) = self.eff(a, b);
        self.lover.insert(pair(a, b), (mn, v));
        rec::emit(json!({"ev":"setlat","kind":"linkmax","a":a,"b":b,"v":v}));
    }

    /// Latency setters on host SETS (regex): documented to act on every pair (x, y), x in a,
    /// y in b, x != y; recorded as that sequence of per-link calls.
    fn set_link_latency_sets(&mut self, a: &[usize], b: &[usize], v: u64, max_only: bool) {
        let re = |s: &[usize]| {
            let alt: Vec<String> = s.iter().map(|h| h.to_string()).collect();
            regex::Regex::new(&format!("^h({})$", alt.join("|"))).unwrap()
        };
        if max_only {
            self.sim
                .set_link_max_message_latency(re(a), re(b), Duration::from_millis(v));
        } else {
            self.sim.set_link_latency(re(a), re(b), Duration::from_millis(v));
        }
        for &x in a {
            for &y in b {
                if x == y {
                    continue;
                }
                if max_only {
                    let (mn, _) = self.eff(x, y);
                    self.lover.insert(pair(x, y), (mn, v));
                    rec::emit(json!({"ev":"setlat","kind":"linkmax","a":x,"b":y,"v":v}));
                } else {
                    self.lover.insert(pair(x, y), (v, v));
                    rec::emit(json!({"ev":"setlat","kind":"link","a":x,"b":y,"v":v}));
                }
            }
        }
    }

    fn set_max_latency(&mut self, v: u64) {
        self.sim.set_max_message_latency(Duration::from_millis(v));
        self.gmax = v;
        rec::emit(json!({"ev":"setlat","kind":"max","a":1,"b":2,"v":v}));
    }

    /// Sim::links as [(a, b, [ids])] in iteration order.
    fn links(&self) -> Vec<(usize, usize, Vec<u64>)> {
        let mut out = Vec::new();
        let ip2h = &self.ip2h;
        self.sim.links(|links| {
            for link in links {
                let (a, b) = link.pair();
                let (a, b) = (ip2h[&a.to_string()], ip2h[&b.to_string()]);
                let mut ids = Vec::new();
                for sent in link {
                    ids.push(sent_name(&sent, ip2h));
                }
                out.push((a, b, ids));
            }
        });
        out
    }

    fn links_event(&self) -> Vec<(usize, usize, Vec<u64>)> {
        let l = self.links();
        let pairs: Vec<Value> = l
            .iter()
            .map(|(a, b, ids)| json!({"a":a,"b":b,"ids":ids}))
            .collect();
        rec::emit(json!({"ev":"links","pairs":pairs}));
        l
    }

    /// SentRef::deliver on the k-th (1-based) message of link (a, b).
    fn manual(&mut self, a: usize, b: usize, k: usize) -> Option<u64> {
        let ip2h = &self.ip2h;
        let mut hit = None;
        self.sim.links(|links| {
            for link in links {
                let (x, y) = link.pair();
                let (x, y) = (ip2h[&x.to_string()], ip2h[&y.to_string()]);
                if pair(x, y) != pair(a, b) {
                    continue;
                }
                for (i, sent) in link.enumerate() {
                    if i + 1 == k {
                        hit = Some(sent_name(&sent, ip2h));
                        sent.deliver();
                    }
                }
            }
        });
        if let Some(id) = hit {
            let (a, b) = pair(a, b);
            rec::emit(json!({"ev":"manual","a":a,"b":b,"k":k,"id":id}));
        }
        hit
    }

    /// LinkIter::deliver_all on link (a, b): every message of the link, in queue order.
    fn manual_all(&mut self, a: usize, b: usize) -> usize {
        let ip2h = &self.ip2h;
        let mut ids = Vec::new();
        self.sim.links(|links| {
            for link in links {
                let (x, y) = link.pair();
                let (x, y) = (ip2h[&x.to_string()], ip2h[&y.to_string()]);
                if pair(x, y) != pair(a, b) {
                    continue;
                }
                // read the ids first (a second pass over Sim::links), then deliver the whole link at once
                let _ = &link;
            }
        });
        for (x, y, l) in self.links() {
            if pair(x, y) == pair(a, b) {
                ids = l;
            }
        }
        self.sim.links(|links| {
            for link in links {
                let (x, y) = link.pair();
                let (x, y) = (ip2h[&x.to_string()], ip2h[&y.to_string()]);
                if pair(x, y) == pair(a, b) {
                    link.deliver_all();
                }
            }
        });
        let (a, b) = pair(a, b);
        for (i, id) in ids.iter().enumerate() {
            rec::emit(json!({"ev":"manual","a":a,"b":b,"k":i + 1,"id":id}));
        }
        ids.len()
    }

    /// Runtime fail-rate setters (Sim::set_fail_rate / Sim::set_link_fail_rate); not an event of the
    /// specs: the run is flagged `fail` from the start when it may use them.
    fn set_fail(&mut self, link: Option<(usize, usize)>, rate: f64) {
        match link {
            Some((a, b)) => self.sim.set_link_fail_rate(hname(a), hname(b), rate),
            None => self.sim.set_fail_rate(rate),
        }
    }

    fn step(&mut self, per_host: Vec<Vec<Cmd>>) {
        for (h, cmds) in per_host.into_iter().enumerate() {
            if h == 0 {
                continue;
            }
            self.shared.borrow_mut().cmds[h] = cmds.into();
        }
        for h in 1..=self.n {
            self.notifies[h].notify_one();
        }
        rec::emit(json!({"ev":"step"}));
        self.sim.step().expect("step");
        // a probe's stream that left its host's socket table was reset by the answering RST
        let watched: Vec<(usize, u16)> = self.shared.borrow().probes.keys().copied().collect();
        if !watched.is_empty() {
            for h in 1..=self.n {
                let mine: Vec<u16> = watched.iter().filter(|(x, _)| *x == h).map(|(_, p)| *p).collect();
                if mine.is_empty() {
                    continue;
                }
                let t = self.sim.verif_host_tables(hname(h));
                for port in mine {
                    if !t.tcp_streams.iter().any(|(l, _)| l.port() == port) {
                        self.shared.borrow_mut().probes.remove(&(h, port));
                        rec::emit(json!({"ev":"rstseen","h":h,"port":port}));
                    }
                }
            }
        }
        rec::emit(json!({"ev":"step_end"}));
    }
}

fn payload_id(proto: &str) -> Option<u64> {
    let b = util::parse_hex_payload(proto)?;
    if b.len() >= 2 {
        Some(((b[0] as u64) << 8) | b[1] as u64)
    } else {
        None
    }
}

/// Turn the raw recorded stream (harness + puppet records interleaved with
/// turmoil's tracing events) into model-level events.  Purely syntactic:
/// tracing events between send_begin/send_end are folded into the `send`
/// record, `Delivered` events are folded into the `turn` record of the host
/// that is woken next.
///
/// Message ids: the specs number messages in send order.  The puppets number their own sends
/// (the number travels in the payload); the answers a host makes itself (TCP RST for a refused
/// probe, from inside Link::deliver_messages) are numbered here, at the point of the stream where
/// the guarded `Enqueue` hook reports them, and every recorded id is renumbered accordingly.
/// An RST that was never reported by the hook is numbered where the public API first shows it
/// (in `Sim::links`, or by the reset of the stream) and recorded as a send at that point.
fn postprocess(raw: Vec<Value>, run: &Run<'_>, cfgs: &mut CfgMirror) -> Vec<Value> {
    let mut out: Vec<Value> = Vec::new();
    let mut got: BTreeMap<usize, Vec<u64>> = BTreeMap::new();
    let mut cur_send: Option<Value> = None; // a puppet's send in progress
    let mut cur_reply: Option<Value> = None; // a host's own answer in progress
    let mut pre_turn: BTreeMap<usize, Vec<Value>> = BTreeMap::new(); // events of a turn's delivery phase
    let mut fin: BTreeMap<u64, u64> = BTreeMap::new(); // puppet number -> id
    let mut rst: BTreeMap<(usize, u16), u64> = BTreeMap::new(); // stream reset by the RST -> id of the RST
    let mut probe: BTreeMap<(usize, u16), (u64, usize, bool)> = BTreeMap::new(); // stream -> (probe id, dst, arrival recorded)
    let mut next = 0u64;
    let mut steps = 0u64;
    let tick = run.tick;
    let host_of = |addr: &str| -> usize {
        let ip = addr.rsplit_once(':').map(|x| x.0).unwrap_or(addr);
        let ip = ip.trim_start_matches('[').trim_end_matches(']');
        *run.ip2h.get(ip).unwrap_or(&0)
    };
    let port_of = |addr: &str| -> u16 { addr.rsplit_once(':').and_then(|x| x.1.parse().ok()).unwrap_or(0) };
    fn flush_reply(cur_reply: &mut Option<Value>, pre_turn: &mut BTreeMap<usize, Vec<Value>>) {
        if let Some(r) = cur_reply.take() {
            let h = r["src"].as_u64().unwrap() as usize;
            pre_turn.entry(h).or_default().push(r);
        }
    }
    // an RST the hook did not report: number it now, record its send (and the arrival of the probe it answers) here
    macro_rules! late_rst {
        ($key:expr) => {{
            let key: (usize, u16) = $key;
            if let Some(id) = rst.get(&key) {
                *id
            } else {
                next += 1;
                let id = next;
                rst.insert(key, id);
                let at = steps.saturating_sub(1) * tick;
                if let Some((pid, pdst, seen)) = probe.get_mut(&key) {
                    if !*seen {
                        *seen = true;
                        out.push(json!({"ev":"recv","id":*pid,"h":*pdst,"at":at}));
                    }
                    let (cmin, cmax) = cfgs.eff(*pdst, key.0);
                    out.push(json!({"ev":"send","id":id,"src":*pdst,"dst":key.0,"t":at,"off":0,"kind":"rst","late":true,
                        "lat":-1,"cmin":cmin,"cmax":cmax,"outcome":"none","cf":false,"sab":"?","sba":"?"}));
                }
                id
            }
        }};
    }
    macro_rules! name_to_id {
        ($v:expr) => {{
            let v: u64 = $v;
            if v >= RST_BASE {
                let key = (((v - RST_BASE) >> 16) as usize, ((v - RST_BASE) & 0xffff) as u16);
                late_rst!(key)
            } else {
                *fin.get(&v).unwrap_or(&v)
            }
        }};
    }
    for e in raw {
        let ev = e["ev"].as_str().unwrap_or("");
        match ev {
            "t" => {
                let msg = e["message"].as_str().unwrap_or("");
                let target = if cur_send.is_some() { cur_send.as_mut() } else { cur_reply.as_mut() };
                match msg {
                    "Delivered" => {
                        let dst = e["dst"].as_str().unwrap_or("");
                        let h = host_of(dst);
                        let proto = e["protocol"].as_str().unwrap_or("");
                        if proto.trim() == "TCP RST" {
                            if let Some(id) = rst.get(&(h, port_of(dst))) {
                                got.entry(h).or_default().push(*id);
                            }
                        } else if let Some(id) = payload_id(proto) {
                            got.entry(h).or_default().push(*fin.get(&id).unwrap_or(&id));
                        }
                    }
                    "Enqueue" => {
                        if cur_send.is_none() && e["protocol"].as_str().unwrap_or("").trim() == "TCP RST" {
                            // a host answers a refused probe during the delivery phase of its turn
                            flush_reply(&mut cur_reply, &mut pre_turn);
                            let (srcs, dsts) = (e["src"].as_str().unwrap_or(""), e["dst"].as_str().unwrap_or(""));
                            let (src, dst) = (host_of(srcs), host_of(dsts));
                            let key = (dst, port_of(dsts));
                            next += 1;
                            rst.insert(key, next);
                            let at = steps.saturating_sub(1) * tick;
                            if let Some((pid, _pdst, seen)) = probe.get_mut(&key) {
                                if !*seen {
                                    *seen = true;
                                    pre_turn.entry(src).or_default().push(json!({"ev":"recv","id":*pid,"h":src,"at":at}));
                                }
                            }
                            let (cmin, cmax) = cfgs.eff(src, dst);
                            cur_reply = Some(json!({"ev":"send","id":next,"src":src,"dst":dst,"t":at,"off":0,"kind":"rst",
                                "lat":-1,"cmin":cmin,"cmax":cmax,"outcome":"none","cf":false,"sab":"?","sba":"?"}));
                        }
                    }
                    "Rand" => {
                        if let Some(s) = target {
                            s["cf"] = e["do_rand"].clone();
                            s["sab"] = e["a_b"].clone();
                            s["sba"] = e["b_a"].clone();
                        }
                    }
                    "Delay" => {
                        if let Some(s) = target {
                            s["lat"] = e["delay_ms"].clone();
                            s["outcome"] = json!("queued");
                        }
                    }
                    "Hold" => {
                        if let Some(s) = target {
                            s["outcome"] = json!("held");
                        }
                    }
                    "Drop" => {
                        if let Some(s) = target {
                            s["outcome"] = json!("dropped");
                        }
                    }
                    _ => {}
                }
            }
            "step" => {
                steps += 1;
                out.push(e);
            }
            "wake" => {
                flush_reply(&mut cur_reply, &mut pre_turn);
                let h = e["h"].as_u64().unwrap() as usize;
                let g = got.remove(&h).unwrap_or_default();
                out.push(json!({"ev":"turn","h":h,"got":g}));
                out.extend(pre_turn.remove(&h).unwrap_or_default());
            }
            "send_begin" => {
                flush_reply(&mut cur_reply, &mut pre_turn);
                let (src, dst) = (e["src"].as_u64().unwrap() as usize, e["dst"].as_u64().unwrap() as usize);
                let (cmin, cmax) = cfgs.eff(src, dst);
                next += 1;
                fin.insert(e["id"].as_u64().unwrap(), next);
                let mut s = json!({"ev":"send","id":next,"src":src,"dst":dst,"t":e["t"],"off":e["off"],
                    "lat":-1,"cmin":cmin,"cmax":cmax,"outcome":"none","cf":false,"sab":"?","sba":"?"});
                if e["kind"] == "probe" {
                    s["kind"] = json!("probe");
                    probe.insert((src, e["port"].as_u64().unwrap_or(0) as u16), (next, dst, false));
                }
                cur_send = Some(s);
            }
            "send_end" => {
                if let Some(s) = cur_send.take() {
                    out.push(s);
                }
            }
            "recv" => {
                let mut e = e;
                let id = e["id"].as_u64().unwrap_or(0);
                e["id"] = json!(*fin.get(&id).unwrap_or(&id));
                out.push(e);
            }
            "rstseen" => {
                flush_reply(&mut cur_reply, &mut pre_turn);
                let h = e["h"].as_u64().unwrap() as usize;
                let id = late_rst!((h, e["port"].as_u64().unwrap_or(0) as u16));
                out.push(json!({"ev":"recv","id":id,"h":h,"at":steps.saturating_sub(1) * tick}));
            }
            "links" => {
                let mut e = e;
                if let Some(pairs) = e["pairs"].as_array().cloned() {
                    let mut np = Vec::new();
                    for p in pairs {
                        let ids: Vec<u64> = p["ids"].as_array().unwrap().iter().map(|v| name_to_id!(v.as_u64().unwrap())).collect();
                        np.push(json!({"a":p["a"],"b":p["b"],"ids":ids}));
                    }
                    e["pairs"] = json!(np);
                }
                out.push(e);
            }
            "manual" => {
                let mut e = e;
                let id = name_to_id!(e["id"].as_u64().unwrap_or(0));
                e["id"] = json!(id);
                out.push(e);
            }
            "setlat" => {
                cfgs.apply(&e);
                out.push(e);
            }
            "step_end" => {
                flush_reply(&mut cur_reply, &mut pre_turn);
                for (_h, evs) in std::mem::take(&mut pre_turn) {
                    out.extend(evs);
                }
                for (h, ids) in std::mem::take(&mut got) {
                    out.push(json!({"ev":"stray_delivered","h":h,"ids":ids}));
                }
                out.push(e);
            }
            _ => out.push(e),
        }
    }
    out
}

/// Mirror of the latency configuration as the harness set it, replayed in
/// event order so each send is stamped with the configuration in force.
struct CfgMirror {
    gmin: u64,
    gmax: u64,
    lover: BTreeMap<(usize, usize), (u64, u64)>,
}
impl CfgMirror {
    fn eff(&self, a: usize, b: usize) -> (u64, u64) {
        *self.lover.get(&pair(a, b)).unwrap_or(&(self.gmin, self.gmax))
    }
    fn apply(&mut self, e: &Value) {
        let (a, b, v) = (
            e["a"].as_u64().unwrap() as usize,
            e["b"].as_u64().unwrap() as usize,
            e["v"].as_u64().unwrap(),
        );
        match e["kind"].as_str().unwrap() {
            "link" => {
                self.lover.insert(pair(a, b), (v, v));
            }
            "linkmax" => {
                let (mn, _) = self.eff(a, b);
                self.lover.insert(pair(a, b), (mn, v));
            }
            "max" => self.gmax = v,
            _ => {}
        }
    }
}

// ---------------------------------------------------------------------------
// replay of TLC behaviours

struct ReplayOut {
    divergence: Option<Value>,
    trace: Vec<Value>,
    nontrivial: bool,
}

fn replay_one(beh: &[Value], cfg: &Cfg, full: bool) -> ReplayOut {
    // behaviours with TCP probes: one prepared stream per probe and ordered pair
    let nprobe = beh.iter().filter(|a| a["a"] == "send" && a["kind"] == "probe").count();
    let mut cfg2 = cfg.clone();
    cfg2.tcp_k = nprobe;
    let cfg = &cfg2;
    let tcp = nprobe > 0;
    let mut run = Run::new(cfg);
    let mut mirror = CfgMirror { gmin: cfg.gmin, gmax: cfg.gmax, lover: BTreeMap::new() };
    let mut divergence = None;
    let mut recv_log: Vec<Vec<(u64, u64, u64)>> = vec![Vec::new(); cfg.n + 1];
    let mut model_step = 0u64;
    let mut i = 0;
    let mut has_ctl = false;
    let mut has_recv = false;
    let mut all_raw: Vec<Value> = Vec::new();
    while i < beh.len() && (full || divergence.is_none()) {
        let a = &beh[i];
        let name = a["a"].as_str().unwrap();
        match name {
            "ctl" => {
                has_ctl = true;
                run.ctl(
                    a["op"].as_str().unwrap(),
                    a["x"].as_u64().unwrap() as usize,
                    a["y"].as_u64().unwrap() as usize,
                );
                i += 1;
            }
            "manual" => {
                has_ctl = true;
                let p = a["p"].as_array().unwrap();
                let want = a["id"].as_u64().unwrap();
                let got = run.manual(
                    p[0].as_u64().unwrap() as usize,
                    p[1].as_u64().unwrap() as usize,
                    a["k"].as_u64().unwrap() as usize,
                );
                // (with probes the ids are renumbered in send order afterwards: the following
                // receipts / links comparisons judge the manual delivery)
                if (if tcp { got.is_none() } else { got != Some(want) }) && divergence.is_none() {
                    divergence = Some(json!({"at":i,"what":"manual","want":want,"got":got}));
                }
                i += 1;
            }
            "set_link_latency" => {
                has_ctl = true;
                let p = a["p"].as_array().unwrap();
                run.set_link_latency(
                    p[0].as_u64().unwrap() as usize,
                    p[1].as_u64().unwrap() as usize,
                    a["v"].as_u64().unwrap(),
                );
                i += 1;
            }
            "set_link_max_latency" => {
                has_ctl = true;
                let p = a["p"].as_array().unwrap();
                run.set_link_max_latency(
                    p[0].as_u64().unwrap() as usize,
                    p[1].as_u64().unwrap() as usize,
                    a["v"].as_u64().unwrap(),
                );
                i += 1;
            }
            "set_max_latency" => {
                run.set_max_latency(a["v"].as_u64().unwrap());
                i += 1;
            }
            "step_begin" => {
                model_step += 1;
                // collect the host commands of this step
                let mut per_host: Vec<Vec<Cmd>> = vec![Vec::new(); cfg.n + 1];
                let mut cur = 0usize;
                let mut j = i + 1;
                let mut pred_outcomes: Vec<(u64, String)> = Vec::new();
                while beh[j]["a"] != "step_end" {
                    let b = &beh[j];
                    match b["a"].as_str().unwrap() {
                        "turn" => cur = b["h"].as_u64().unwrap() as usize,
                        "send" => {
                            per_host[cur].push(Cmd::Send {
                                dst: b["dst"].as_u64().unwrap() as usize,
                                off: b["off"].as_u64().unwrap(),
                                id: b["id"].as_u64().unwrap(),
                                probe: b["kind"] == "probe",
                            });
                            pred_outcomes.push((b["id"].as_u64().unwrap(), b["outcome"].as_str().unwrap().to_string()));
                        }
                        "ctl" => {
                            has_ctl = true;
                            per_host[cur].push(Cmd::Ctl {
                                op: b["op"].as_str().unwrap().to_string(),
                                a: b["x"].as_u64().unwrap() as usize,
                                b: b["y"].as_u64().unwrap() as usize,
                            })
                        }
                        // the answer to a refused probe is made by the code itself
                        "reply" => {}
                        other => panic!("unexpected in-step action {other}"),
                    }
                    j += 1;
                }
                run.step(per_host);
                // observations of this step
                let raw = rec::take();
                for e in &raw {
                    if e["ev"] == "recv" {
                        let h = e["h"].as_u64().unwrap() as usize;
                        recv_log[h].push((e["id"].as_u64().unwrap(), e["at"].as_u64().unwrap(), model_step));
                        has_recv = true;
                    }
                }
                all_raw.extend(raw);
                let mut links = run.links_event();
                all_raw.extend(rec::take());
                if tcp {
                    // ids in send order (answers included): re-derive the observation so far from the whole stream
                    let mut fresh = CfgMirror { gmin: cfg.gmin, gmax: cfg.gmax, lover: BTreeMap::new() };
                    let evs = postprocess(all_raw.clone(), &run, &mut fresh);
                    recv_log = vec![Vec::new(); cfg.n + 1];
                    let mut st = 0u64;
                    for e in &evs {
                        match e["ev"].as_str().unwrap_or("") {
                            "step" => st += 1,
                            "recv" => {
                                let h = e["h"].as_u64().unwrap() as usize;
                                recv_log[h].push((e["id"].as_u64().unwrap(), e["at"].as_u64().unwrap(), st));
                                has_recv = true;
                            }
                            "links" => {
                                links = e["pairs"]
                                    .as_array()
                                    .unwrap()
                                    .iter()
                                    .map(|p| {
                                        (
                                            p["a"].as_u64().unwrap() as usize,
                                            p["b"].as_u64().unwrap() as usize,
                                            p["ids"].as_array().unwrap().iter().map(|v| v.as_u64().unwrap()).collect(),
                                        )
                                    })
                                    .collect();
                            }
                            _ => {}
                        }
                    }
                    // the order in which a stream reset and datagrams arrive within one turn is not observable
                    for l in recv_log.iter_mut() {
                        l.sort_by_key(|r| (r.2, r.0));
                    }
                }
                // compare with the prediction carried by step_end
                let se = &beh[j];
                let pr = se["rcvd"].as_array().unwrap();
                for h in 1..=cfg.n {
                    let mut want: Vec<(u64, u64, u64)> = pr[h - 1]
                        .as_array()
                        .unwrap()
                        .iter()
                        .map(|r| (r["id"].as_u64().unwrap(), r["at"].as_u64().unwrap(), r["step"].as_u64().unwrap()))
                        .collect();
                    if tcp {
                        want.sort_by_key(|r| (r.2, r.0));
                    }
                    if want != recv_log[h] && divergence.is_none() {
                        divergence = Some(json!({"at":j,"what":"rcvd","h":h,"step":model_step,
                            "want":format!("{want:?}"),"got":format!("{:?}", recv_log[h])}));
                        break;
                    }
                }
                {
                    // links: prediction is indexed by LinkSeq order = Sim::links iteration order
                    let pl = se["links"].as_array().unwrap();
                    let got: Vec<Vec<u64>> = links.iter().map(|x| x.2.clone()).collect();
                    let want: Vec<Vec<u64>> = pl
                        .iter()
                        .map(|x| x.as_array().unwrap().iter().map(|v| v.as_u64().unwrap()).collect())
                        .collect();
                    if got != want && divergence.is_none() {
                        divergence = Some(json!({"at":j,"what":"links","step":model_step,
                            "want":format!("{want:?}"),"got":format!("{got:?}")}));
                    }
                }
                i = j + 1;
            }
            other => panic!("unexpected action {other}"),
        }
        all_raw.extend(rec::take());
    }
    if full {
        // let every bounded-delivery deadline of the PropSpec pass
        for _ in 0..((cfg.gmax + 16) / cfg.tick + 4) {
            run.step(vec![Vec::new(); cfg.n + 1]);
            all_raw.extend(rec::take());
            run.links_event();
            all_raw.extend(rec::take());
        }
    }
    let trace = postprocess(all_raw, &run, &mut mirror);
    ReplayOut { divergence, trace, nontrivial: has_ctl && has_recv }
}

fn parse_reg(args: &[String], n: usize) -> Vec<usize> {
    match util::arg(args, "reg") {
        Some(s) => s.split(',').map(|x| x.trim().parse().expect("reg")).collect(),
        None => (1..=n).collect(),
    }
}

fn main_replay(args: &[String]) {
    let inp = util::arg(args, "in").expect("in=");
    let out = util::arg(args, "out").expect("out=");
    let traces = util::arg(args, "traces");
    let cfg = Cfg {
        n: util::arg_u64(args, "n", 2) as usize,
        tick: util::arg_u64(args, "tick", 2),
        gmin: util::arg_u64(args, "gmin", 0),
        gmax: util::arg_u64(args, "gmax", 0),
        fail: 0.0,
        repair: 1.0,
        random_order: false,
        seed: 1,
        curve: None,
        ipv6: false,
        runtime_fail: false,
        reg: parse_reg(args, util::arg_u64(args, "n", 2) as usize),
        tcp_k: 0,
    };
    let text = std::fs::read_to_string(&inp).expect("read behaviours");
    let mut total = 0u64;
    let mut nontrivial = 0u64;
    let mut divs: Vec<Value> = Vec::new();
    let mut samples: Vec<Value> = Vec::new();
    let mut ndiv = 0u64;
    rec::with_recorder(|| {
        for (k, line) in text.lines().enumerate() {
            if line.trim().is_empty() {
                continue;
            }
            let beh: Vec<Value> = serde_json::from_str(line).expect("behaviour json");
            let r = match util::catch(|| replay_one(&beh, &cfg, false)) {
                Ok(r) => r,
                Err(p) => ReplayOut {
                    divergence: Some(json!({"what":"panic","msg":p})),
                    trace: vec![],
                    nontrivial: false,
                },
            };
            total += 1;
            if r.nontrivial {
                nontrivial += 1;
            }
            if samples.len() < 2 && r.nontrivial {
                samples.push(json!({"behaviour": beh, "trace_excerpt": r.trace.iter().take(12).collect::<Vec<_>>()}));
            }
            if let Some(d) = r.divergence {
                ndiv += 1;
                if divs.len() < 20 {
                    let mut d = d;
                    d["line"] = json!(k);
                    if let Some(dir) = &traces {
                        let p = format!("{dir}/div-{}.ndjson", divs.len());
                        // second pass: run the whole behaviour plus drain steps so the
                        // PropSpec can judge the complete observation
                        let full = util::catch(|| replay_one(&beh, &cfg, true))
                            .map(|r| r.trace)
                            .unwrap_or(r.trace.clone());
                        util::write_ndjson(&p, &full);
                        d["trace"] = json!(p);
                        d["behaviour"] = json!(beh);
                    }
                    divs.push(d);
                }
            }
        }
    });
    let summary = json!({"behaviours": total, "nontrivial": nontrivial, "divergent": ndiv,
        "divergences": divs, "samples": samples});
    std::fs::write(&out, serde_json::to_string(&summary).unwrap()).unwrap();
    println!("replayed={total} nontrivial={nontrivial} divergent={ndiv}");
}

// ---------------------------------------------------------------------------
// random scenarios (code -> spec)

fn main_random(args: &[String]) {
    let seed = util::arg_u64(args, "seed", 1);
    let runs = util::arg_u64(args, "runs", 20);
    let n = util::arg_u64(args, "n", 3) as usize;
    let tick = util::arg_u64(args, "tick", 2);
    let gmin = util::arg_u64(args, "gmin", 0);
    let gmax = util::arg_u64(args, "gmax", 5);
    let mode = util::arg(args, "mode").unwrap_or("part".into());
    // "rstpart" / "rsthold" / "rstlat": the same scenarios with TCP probes (answered by an RST from
    // inside Link::deliver_messages) mixed into the traffic
    let tcp = mode.starts_with("rst");
    let mode = mode.trim_start_matches("rst").to_string();
    let steps = util::arg_u64(args, "steps", 12);
    let out = util::arg(args, "out").expect("out=");
    let mut rng = SmallRng::seed_from_u64(seed ^ 0x746f706c);
    let mut all: Vec<Value> = Vec::new();
    let mut nsend = 0u64;
    let mut nctl = 0u64;
    rec::with_recorder(|| {
        for r in 0..runs {
            let fail_on = mode == "part" && rng.random_bool(0.5);
            let cfg = Cfg {
                n,
                tick,
                gmin,
                gmax,
                fail: if fail_on { rng.random_range(0.05..0.5) } else { 0.0 },
                repair: if fail_on { rng.random_range(0.1..1.0) } else { 1.0 },
                random_order: rng.random_bool(0.5),
                seed: seed.wrapping_mul(1000).wrapping_add(r),
                // distribution parameter: flat curves put most samples at the upper end of the range
                curve: if rng.random_bool(0.5) { Some([0.2, 1.0, 20.0][rng.random_range(0..3)]) } else { None },
                ipv6: rng.random_bool(0.3),
                runtime_fail: fail_on && rng.random_bool(0.5),
                reg: parse_reg(args, n),
                tcp_k: if tcp { (2 * steps as usize).min(16) } else { 0 },
            };
            let runtime_fail = cfg.runtime_fail;
            let mut run = Run::new(&cfg);
            let mut mirror = CfgMirror { gmin, gmax, lover: BTreeMap::new() };
            let mut raw: Vec<Value> = rec::take();
            let mut next_id = 1u64;
            let ops: &[&str] = match mode.as_str() {
                "part" => &["partition", "partition_oneway", "repair", "repair_oneway"],
                "hold" => &["hold", "release", "hold", "release", "repair"],
                // a release of links that were never held: nothing in flight may be affected
                "lat" => &["release"],
                _ => &[],
            };
            for _s in 0..steps {
                // controller actions between steps; manual deliveries come before or after the
                // control call (a release right after a manual delivery, or the other way round)
                let manual_first = rng.random_bool(0.5);
                let mut last_manual: Option<(usize, usize)> = None;
                for phase in 0..2 {
                    if (phase == 0) != manual_first {
                        if !ops.is_empty() && rng.random_bool(0.45) {
                            let a = rng.random_range(1..=n);
                            let mut b = rng.random_range(1..=n);
                            if b == a {
                                b = a % n + 1;
                            }
                            let mut op = ops[rng.random_range(0..ops.len())];
                            let mut sets = n >= 3 && rng.random_bool(0.3);
                            let (mut a, mut b) = (a, b);
                            if let Some((x, y)) = last_manual {
                                // often: a release of the very link a message was just hand-delivered on
                                if rng.random_bool(0.5) {
                                    (op, a, b, sets) = ("release", x, y, false);
                                }
                            }
                            if sets {
                                // host sets by regex: two random non-empty subsets (sorted = registration order)
                                let pick = |rng: &mut SmallRng| -> Vec<usize> {
                                    let mut v: Vec<usize> = (1..=n).filter(|_| rng.random_bool(0.5)).collect();
                                    if v.is_empty() {
                                        v.push(rng.random_range(1..=n));
                                    }
                                    v
                                };
                                let (sa, sb) = (pick(&mut rng), pick(&mut rng));
                                run.ctl_sets(op, &sa, &sb);
                            } else {
                                run.ctl(op, a, b);
                            }
                            nctl += 1;
                        }
                    } else {
                        if mode == "hold" && rng.random_bool(0.1) {
                            // LinkIter::deliver_all on a random link
                            let a = rng.random_range(1..=n);
                            run.manual_all(a, a % n + 1);
                            nctl += 1;
                        }
                        if mode == "hold" && rng.random_bool(0.3) {
                            // manual delivery of a random in-flight message
                            let l = run.links();
                            let cands: Vec<(usize, usize, usize)> = l
                                .iter()
                                .flat_map(|(a, b, ids)| (1..=ids.len()).map(move |k| (*a, *b, k)))
                                .collect();
                            if !cands.is_empty() {
                                let (a, b, k) = cands[rng.random_range(0..cands.len())];
                                run.manual(a, b, k);
                                last_manual = Some((a, b));
                                nctl += 1;
                            }
                        }
                    }
                }
                if runtime_fail && rng.random_bool(0.2) {
                    // fail rates changed while the run is in progress, globally or for one link
                    let rate = [0.0, 0.1, 0.4][rng.random_range(0..3)];
                    if rng.random_bool(0.5) {
                        let a = rng.random_range(1..=n);
                        run.set_fail(Some((a, a % n + 1)), rate);
                    } else {
                        run.set_fail(None, rate);
                    }
                }
                if mode == "lat" && n >= 3 && rng.random_bool(0.12) {
                    // per-link setters on host sets named by regex
                    let pick = |rng: &mut SmallRng| -> Vec<usize> {
                        let mut v: Vec<usize> = (1..=n).filter(|_| rng.random_bool(0.6)).collect();
                        if v.is_empty() {
                            v.push(rng.random_range(1..=n));
                        }
                        v
                    };
                    let (sa, sb) = (pick(&mut rng), pick(&mut rng));
                    if rng.random_bool(0.6) {
                        run.set_link_latency_sets(&sa, &sb, rng.random_range(0..=gmax + 3), false);
                    } else {
                        // a max-only override must not go below any affected link's minimum
                        let lo = sa
                            .iter()
                            .flat_map(|&x| sb.iter().map(move |&y| (x, y)))
                            .filter(|(x, y)| x != y)
                            .map(|(x, y)| run.eff(x, y).0)
                            .max()
                            .unwrap_or(gmin);
                        run.set_link_latency_sets(&sa, &sb, rng.random_range(lo..=lo + 6), true);
                    }
                }
                if mode == "lat" && rng.random_bool(0.25) {
                    let a = rng.random_range(1..=n);
                    let b = a % n + 1;
                    match rng.random_range(0..3) {
                        0 => run.set_link_latency(a, b, rng.random_range(0..=gmax + 3)),
                        1 => {
                            let (mn, _) = {
                                // effective min after everything set so far
                                let mut m = CfgMirror { gmin, gmax: run.gmax, lover: run.lover.clone() };
                                let _ = &mut m;
                                m.eff(a, b)
                            };
                            run.set_link_max_latency(a, b, rng.random_range(mn..=mn + 6))
                        }
                        _ => run.set_max_latency(rng.random_range(gmin..=gmin + 7)),
                    }
                }
                // host commands
                let mut per_host: Vec<Vec<Cmd>> = vec![Vec::new(); n + 1];
                for h in 1..=n {
                    let k = rng.random_range(0..=2);
                    let mut off = 0;
                    for _ in 0..k {
                        let mut dst = rng.random_range(1..=n);
                        if dst == h {
                            dst = h % n + 1;
                        }
                        if tick > 1 && rng.random_bool(0.4) {
                            off = rng.random_range(off..tick);
                        }
                        per_host[h].push(Cmd::Send { dst, off, id: next_id, probe: tcp && rng.random_bool(0.6) });
                        next_id += 1;
                        nsend += 1;
                    }
                    if !ops.is_empty() && rng.random_bool(0.1) {
                        let a = rng.random_range(1..=n);
                        let b = a % n + 1;
                        let op = ops[rng.random_range(0..ops.len())];
                        per_host[h].push(Cmd::Ctl { op: op.to_string(), a, b });
                        nctl += 1;
                    }
                }
                run.step(per_host);
                raw.extend(rec::take());
                run.links_event();
                raw.extend(rec::take());
            }
            // drain: enough quiet steps for everything to arrive
            for _ in 0..((gmax + 12) / tick + 3) {
                run.step(vec![Vec::new(); n + 1]);
                raw.extend(rec::take());
            }
            all.extend(postprocess(raw, &run, &mut mirror));
        }
    });
    util::write_ndjson(&out, &all);
    println!("runs={runs} events={} sends={nsend} ctl={nctl}", all.len());
}

fn main() {
    let args: Vec<String> = std::env::args().skip(1).collect();
    match args.first().map(|s| s.as_str()) {
        Some("replay") => main_replay(&args[1..]),
        Some("random") => main_random(&args[1..]),
        _ => {
            eprintln!("usage: toplink replay|random key=value...");
            std::process::exit(2);
        }
    }
}
