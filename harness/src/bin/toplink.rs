//! Driver for the turmoil link layer (specs/toplink): C03, C08, C14.
//!
//! Modes
//!   replay in=<behaviours.ndjson> out=<summary.json> [traces=<dir>]
//!       every line is one TLC-generated behaviour of TopLinkGen; it is
//!       executed against the real `turmoil::Sim` and the observation after
//!       every step (application-level receipts with virtual timestamps,
//!       `Sim::links` contents) is compared with what TLC predicted.
//!       Divergent behaviours also get their recorded event trace written
//!       to <traces>/div-<k>.ndjson so the PropSpec can judge them.
//!   random seed=<s> runs=<n> n=<hosts> tick=<ms> gmin=<ms> gmax=<ms> mode=<part|hold|lat>
//!          out=<trace.ndjson>
//!       seeded random scenarios with real sampled latencies / fail rates;
//!       writes one concatenated event trace (runs separated by `reset`).
use rand::rngs::SmallRng;
use rand::{Rng, SeedableRng};
use serde_json::{json, Value};
use std::cell::RefCell;
use std::collections::{BTreeMap, VecDeque};
use std::net::{IpAddr, Ipv4Addr};
use std::rc::Rc;
use std::time::Duration;
use tokio::sync::Notify;
use vh::{rec, util};

const PORT: u16 = 9000;

#[derive(Clone, Debug)]
enum Cmd {
    Send { dst: usize, off: u64, id: u64 },
    Ctl { op: String, a: usize, b: usize },
}

#[derive(Default)]
struct Shared {
    cmds: Vec<VecDeque<Cmd>>, // index = host (1-based; slot 0 unused)
    warm: u64,                // warm-up offset in ms (one tick)
    next_id: u64,             // message ids are issued in send order
    ipv6: bool,
}

fn hname(h: usize) -> String {
    format!("h{h}")
}

fn apply_ctl_host(op: &str, a: usize, b: usize) {
    let (a, b) = (hname(a), hname(b));
    match op {
        "partition" => turmoil::partition(a, b),
        "partition_oneway" => turmoil::partition_oneway(a, b),
        "repair" => turmoil::repair(a, b),
        "repair_oneway" => turmoil::repair_oneway(a, b),
        "hold" => turmoil::hold(a, b),
        "release" => turmoil::release(a, b),
        _ => panic!("unknown op {op}"),
    }
}

/// Controller-side call with the host pair named by literal IP address.
fn apply_ctl_sim_ip(sim: &turmoil::Sim<'_>, op: &str, a: usize, b: usize) {
    let (a, b) = (sim.lookup(hname(a)), sim.lookup(hname(b)));
    match op {
        "partition" => sim.partition(a, b),
        "partition_oneway" => sim.partition_oneway(a, b),
        "repair" => sim.repair(a, b),
        "repair_oneway" => sim.repair_oneway(a, b),
        "hold" => sim.hold(a, b),
        "release" => sim.release(a, b),
        _ => panic!("unknown op {op}"),
    }
}

/// Controller-side call with host *sets* named by regex.
fn apply_ctl_sim_sets(sim: &turmoil::Sim<'_>, op: &str, a: &[usize], b: &[usize]) {
    let re = |s: &[usize]| {
        let alt: Vec<String> = s.iter().map(|h| h.to_string()).collect();
        regex::Regex::new(&format!("^h({})$", alt.join("|"))).unwrap()
    };
    let (a, b) = (re(a), re(b));
    match op {
        "partition" => sim.partition(a, b),
        "partition_oneway" => sim.partition_oneway(a, b),
        "repair" => sim.repair(a, b),
        "repair_oneway" => sim.repair_oneway(a, b),
        "hold" => sim.hold(a, b),
        "release" => sim.release(a, b),
        _ => panic!("unknown op {op}"),
    }
}

fn apply_ctl_sim(sim: &turmoil::Sim<'_>, op: &str, a: usize, b: usize) {
    let (a, b) = (hname(a), hname(b));
    match op {
        "partition" => sim.partition(a, b),
        "partition_oneway" => sim.partition_oneway(a, b),
        "repair" => sim.repair(a, b),
        "repair_oneway" => sim.repair_oneway(a, b),
        "hold" => sim.hold(a, b),
        "release" => sim.release(a, b),
        _ => panic!("unknown op {op}"),
    }
}

async fn puppet(h: usize, shared: Rc<RefCell<Shared>>, notify: Rc<Notify>) -> turmoil::Result {
    let any = if shared.borrow().ipv6 {
        IpAddr::V6(std::net::Ipv6Addr::UNSPECIFIED)
    } else {
        IpAddr::V4(Ipv4Addr::UNSPECIFIED)
    };
    let sock = turmoil::net::UdpSocket::bind((any, PORT)).await?;
    let warm = shared.borrow().warm;
    loop {
        notify.notified().await;
        rec::emit(json!({"ev":"wake","h":h}));
        let mut buf = [0u8; 16];
        while let Ok((n, _from)) = sock.try_recv_from(&mut buf) {
            let id = if n >= 2 { ((buf[0] as u64) << 8) | buf[1] as u64 } else { 0 };
            let at = turmoil::elapsed().as_millis() as u64 - warm;
            rec::emit(json!({"ev":"recv","id":id,"h":h,"at":at}));
        }
        let cmds: Vec<Cmd> = shared.borrow_mut().cmds[h].drain(..).collect();
        let mut cur_off = 0u64;
        for c in cmds {
            match c {
                Cmd::Send { dst, off, id: _ } => {
                    if off > cur_off {
                        tokio::time::sleep(Duration::from_millis(off - cur_off)).await;
                        cur_off = off;
                    }
                    let t = turmoil::elapsed().as_millis() as u64 - warm;
                    let id = {
                        let mut sh = shared.borrow_mut();
                        sh.next_id += 1;
                        sh.next_id
                    };
                    rec::emit(json!({"ev":"send_begin","id":id,"src":h,"dst":dst,"t":t,"off":cur_off}));
                    let payload = [(id >> 8) as u8, (id & 0xff) as u8];
                    let r = sock.send_to(&payload, (hname(dst), PORT)).await;
                    rec::emit(json!({"ev":"send_end","id":id,"ok":r.is_ok()}));
                }
                Cmd::Ctl { op, a, b } => {
                    apply_ctl_host(&op, a, b);
                    rec::emit(json!({"ev":"ctl","op":op,"a":a,"b":b,"by":"host"}));
                }
            }
        }
    }
}

struct Run<'a> {
    sim: turmoil::Sim<'a>,
    shared: Rc<RefCell<Shared>>,
    notifies: Vec<Rc<Notify>>,
    n: usize,
    tick: u64,
    ip2h: BTreeMap<String, usize>,
    // harness-side mirror of the latency configuration it has set (observation of its own calls)
    gmin: u64,
    gmax: u64,
    lover: BTreeMap<(usize, usize), (u64, u64)>,
    nctl: u64,
}

struct Cfg {
    n: usize,
    tick: u64,
    gmin: u64,
    gmax: u64,
    fail: f64,
    repair: f64,
    random_order: bool,
    seed: u64,
    curve: Option<f64>, // Sim::set_message_latency_curve (lambda of the exponential distribution)
    ipv6: bool,
    runtime_fail: bool, // the run may call the runtime fail-rate setters
    reg: Vec<usize>,    // registration order (hosts are numbered in address order)
}

fn pair(a: usize, b: usize) -> (usize, usize) {
    if a < b {
        (a, b)
    } else {
        (b, a)
    }
}

impl<'a> Run<'a> {
    fn new(cfg: &Cfg) -> Run<'a> {
        let mut b = turmoil::Builder::new();
        b.tick_duration(Duration::from_millis(cfg.tick))
            .min_message_latency(Duration::from_millis(cfg.gmin))
            .max_message_latency(Duration::from_millis(cfg.gmax))
            .fail_rate(cfg.fail)
            .repair_rate(cfg.repair)
            .rng_seed(cfg.seed)
            .simulation_duration(Duration::from_secs(3600));
        if cfg.random_order {
            b.enable_random_order();
        }
        if cfg.ipv6 {
            b.ip_version(turmoil::IpVersion::V6);
        }
        let mut sim = b.build();
        if let Some(l) = cfg.curve {
            sim.set_message_latency_curve(l);
        }
        let shared = Rc::new(RefCell::new(Shared {
            cmds: (0..=cfg.n).map(|_| VecDeque::new()).collect(),
            warm: cfg.tick,
            next_id: 0,
            ipv6: cfg.ipv6,
        }));
        let mut notifies = vec![Rc::new(Notify::new())];
        let mut ip2h = BTreeMap::new();
        // addresses are handed out at the first lookup: h1 < h2 < ... in address order,
        // whatever the registration order is
        for h in 1..=cfg.n {
            ip2h.insert(sim.lookup(hname(h)).to_string(), h);
            notifies.push(Rc::new(Notify::new()));
        }
        for &h in &cfg.reg {
            let nt = notifies[h].clone();
            let sh = shared.clone();
            sim.host(hname(h), move || puppet(h, sh.clone(), nt.clone()));
        }
        // warm-up step: every puppet binds its socket and parks on its Notify
        sim.step().expect("warm-up step");
        rec::take();
        rec::emit(json!({"ev":"reset","fail":cfg.fail > 0.0 || cfg.runtime_fail}));
        Run {
            sim,
            shared,
            notifies,
            n: cfg.n,
            tick: cfg.tick,
            ip2h,
            gmin: cfg.gmin,
            gmax: cfg.gmax,
            lover: BTreeMap::new(),
            nctl: 0,
        }
    }

    fn eff(&self, a: usize, b: usize) -> (u64, u64) {
        *self.lover.get(&pair(a, b)).unwrap_or(&(self.gmin, self.gmax))
    }

    fn ctl(&mut self, op: &str, a: usize, b: usize) {
        // alternate between naming the hosts by name and by literal address
        self.nctl += 1;
        if self.nctl % 2 == 0 {
            apply_ctl_sim_ip(&self.sim, op, a, b);
        } else {
            apply_ctl_sim(&self.sim, op, a, b);
        }
        rec::emit(json!({"ev":"ctl","op":op,"a":a,"b":b,"by":"ctl"}));
    }

    /// One call on host sets (regex): documented to act on every pair (x, y), x in a, y in b,
    /// x != y; recorded as that sequence of pair calls.
    fn ctl_sets(&mut self, op: &str, a: &[usize], b: &[usize]) {
        apply_ctl_sim_sets(&self.sim, op, a, b);
        for &x in a {
            for &y in b {
                if x != y {
                    rec::emit(json!({"ev":"ctl","op":op,"a":x,"b":y,"by":"ctl"}));
                }
            }
        }
    }

    fn set_link_latency(&mut self, a: usize, b: usize, v: u64) {
        self.sim
            .set_link_latency(hname(a), hname(b), Duration::from_millis(v));
        self.lover.insert(pair(a, b), (v, v));
        rec::emit(json!({"ev":"setlat","kind":"link","a":a,"b":b,"v":v}));
    }

    fn set_link_max_latency(&mut self, a: usize, b: usize, v: u64) {
        self.sim
            .set_link_max_message_latency(hname(a), hname(b), Duration::from_millis(v));
        let (mn, _) = self.eff(a, b);
        self.lover.insert(pair(a, b), (mn, v));
        rec::emit(json!({"ev":"setlat","kind":"linkmax","a":a,"b":b,"v":v}));
    }

    /// Latency setters on host SETS (regex): documented to act on every pair (x, y), x in a,
    /// y in b, x != y; recorded as that sequence of per-link calls.
    fn set_link_latency_sets(&mut self, a: &[usize], b: &[usize], v: u64, max_only: bool) {
        let re = |s: &[usize]| {
            let alt: Vec<String> = s.iter().map(|h| h.to_string()).collect();
            regex::Regex::new(&format!("^h({})$", alt.join("|"))).unwrap()
        };
        if max_only {
            self.sim
                .set_link_max_message_latency(re(a), re(b), Duration::from_millis(v));
        } else {
            self.sim.set_link_latency(re(a), re(b), Duration::from_millis(v));
        }
        for &x in a {
            for &y in b {
                if x == y {
                    continue;
                }
                if max_only {
                    let (mn, _) = self.eff(x, y);
                    self.lover.insert(pair(x, y), (mn, v));
                    rec::emit(json!({"ev":"setlat","kind":"linkmax","a":x,"b":y,"v":v}));
                } else {
                    self.lover.insert(pair(x, y), (v, v));
                    rec::emit(json!({"ev":"setlat","kind":"link","a":x,"b":y,"v":v}));
                }
            }
        }
    }

    fn set_max_latency(&mut self, v: u64) {
        self.sim.set_max_message_latency(Duration::from_millis(v));
        self.gmax = v;
        rec::emit(json!({"ev":"setlat","kind":"max","a":1,"b":2,"v":v}));
    }

    /// Sim::links as [(a, b, [ids])] in iteration order.
    fn links(&self) -> Vec<(usize, usize, Vec<u64>)> {
        let mut out = Vec::new();
        let ip2h = &self.ip2h;
        self.sim.links(|links| {
            for link in links {
                let (a, b) = link.pair();
                let (a, b) = (ip2h[&a.to_string()], ip2h[&b.to_string()]);
                let mut ids = Vec::new();
                for sent in link {
                    let s = format!("{}", sent.protocol());
                    let bytes = util::parse_hex_payload(&s).unwrap_or_default();
                    let id = if bytes.len() >= 2 {
                        ((bytes[0] as u64) << 8) | bytes[1] as u64
                    } else {
                        0
                    };
                    ids.push(id);
                }
                out.push((a, b, ids));
            }
        });
        out
    }

    fn links_event(&self) -> Vec<(usize, usize, Vec<u64>)> {
        let l = self.links();
        let pairs: Vec<Value> = l
            .iter()
            .map(|(a, b, ids)| json!({"a":a,"b":b,"ids":ids}))
            .collect();
        rec::emit(json!({"ev":"links","pairs":pairs}));
        l
    }

    /// SentRef::deliver on the k-th (1-based) message of link (a, b).
    fn manual(&mut self, a: usize, b: usize, k: usize) -> Option<u64> {
        let ip2h = &self.ip2h;
        let mut hit = None;
        self.sim.links(|links| {
            for link in links {
                let (x, y) = link.pair();
                let (x, y) = (ip2h[&x.to_string()], ip2h[&y.to_string()]);
                if pair(x, y) != pair(a, b) {
                    continue;
                }
                for (i, sent) in link.enumerate() {
                    if i + 1 == k {
                        let s = format!("{}", sent.protocol());
                        let bytes = util::parse_hex_payload(&s).unwrap_or_default();
                        hit = Some(((bytes[0] as u64) << 8) | bytes[1] as u64);
                        sent.deliver();
                    }
                }
            }
        });
        if let Some(id) = hit {
            let (a, b) = pair(a, b);
            rec::emit(json!({"ev":"manual","a":a,"b":b,"k":k,"id":id}));
        }
        hit
    }

    /// LinkIter::deliver_all on link (a, b): every message of the link, in queue order.
    fn manual_all(&mut self, a: usize, b: usize) -> usize {
        let ip2h = &self.ip2h;
        let mut ids = Vec::new();
        self.sim.links(|links| {
            for link in links {
                let (x, y) = link.pair();
                let (x, y) = (ip2h[&x.to_string()], ip2h[&y.to_string()]);
                if pair(x, y) != pair(a, b) {
                    continue;
                }
                // read the ids first (a second pass over Sim::links), then deliver the whole link at once
                let _ = &link;
            }
        });
        for (x, y, l) in self.links() {
            if pair(x, y) == pair(a, b) {
                ids = l;
            }
        }
        self.sim.links(|links| {
            for link in links {
                let (x, y) = link.pair();
                let (x, y) = (ip2h[&x.to_string()], ip2h[&y.to_string()]);
                if pair(x, y) == pair(a, b) {
                    link.deliver_all();
                }
            }
        });
        let (a, b) = pair(a, b);
        for (i, id) in ids.iter().enumerate() {
            rec::emit(json!({"ev":"manual","a":a,"b":b,"k":i + 1,"id":id}));
        }
        ids.len()
    }

    /// Runtime fail-rate setters (Sim::set_fail_rate / Sim::set_link_fail_rate); not an event of the
    /// specs: the run is flagged `fail` from the start when it may use them.
    fn set_fail(&mut self, link: Option<(usize, usize)>, rate: f64) {
        match link {
            Some((a, b)) => self.sim.set_link_fail_rate(hname(a), hname(b), rate),
            None => self.sim.set_fail_rate(rate),
        }
    }

    fn step(&mut self, per_host: Vec<Vec<Cmd>>) {
        for (h, cmds) in per_host.into_iter().enumerate() {
            if h == 0 {
                continue;
            }
            self.shared.borrow_mut().cmds[h] = cmds.into();
        }
        for h in 1..=self.n {
            self.notifies[h].notify_one();
        }
        rec::emit(json!({"ev":"step"}));
        self.sim.step().expect("step");
        rec::emit(json!({"ev":"step_end"}));
    }
}

fn payload_id(proto: &str) -> Option<u64> {
    let b = util::parse_hex_payload(proto)?;
    if b.len() >= 2 {
        Some(((b[0] as u64) << 8) | b[1] as u64)
    } else {
        None
    }
}

/// Turn the raw recorded stream (harness + puppet records interleaved with
/// turmoil's tracing events) into model-level events.  Purely syntactic:
/// tracing events between send_begin/send_end are folded into the `send`
/// record, `Delivered` events are folded into the `turn` record of the host
/// that is woken next.
fn postprocess(raw: Vec<Value>, run: &Run<'_>, cfgs: &mut CfgMirror) -> Vec<Value> {
    let mut out = Vec::new();
    let mut got: BTreeMap<usize, Vec<u64>> = BTreeMap::new();
    let mut cur_send: Option<Value> = None;
    let host_of = |addr: &str| -> usize {
        let ip = addr.rsplit_once(':').map(|x| x.0).unwrap_or(addr);
        let ip = ip.trim_start_matches('[').trim_end_matches(']');
        *run.ip2h.get(ip).unwrap_or(&0)
    };
    for e in raw {
        let ev = e["ev"].as_str().unwrap_or("");
        match ev {
            "t" => {
                let msg = e["message"].as_str().unwrap_or("");
                match msg {
                    "Delivered" => {
                        let h = host_of(e["dst"].as_str().unwrap_or(""));
                        if let Some(id) = payload_id(e["protocol"].as_str().unwrap_or("")) {
                            got.entry(h).or_default().push(id);
                        }
                    }
                    "Rand" => {
                        if let Some(s) = cur_send.as_mut() {
                            s["cf"] = e["do_rand"].clone();
                            s["sab"] = e["a_b"].clone();
                            s["sba"] = e["b_a"].clone();
                        }
                    }
                    "Delay" => {
                        if let Some(s) = cur_send.as_mut() {
                            s["lat"] = e["delay_ms"].clone();
                            s["outcome"] = json!("queued");
                        }
                    }
                    "Hold" => {
                        if let Some(s) = cur_send.as_mut() {
                            s["outcome"] = json!("held");
                        }
                    }
                    "Drop" => {
                        if let Some(s) = cur_send.as_mut() {
                            s["outcome"] = json!("dropped");
                        }
                    }
                    _ => {}
                }
            }
            "wake" => {
                let h = e["h"].as_u64().unwrap() as usize;
                let g = got.remove(&h).unwrap_or_default();
                out.push(json!({"ev":"turn","h":h,"got":g}));
            }
            "send_begin" => {
                let (src, dst) = (e["src"].as_u64().unwrap() as usize, e["dst"].as_u64().unwrap() as usize);
                let (cmin, cmax) = cfgs.eff(src, dst);
                cur_send = Some(json!({"ev":"send","id":e["id"],"src":src,"dst":dst,"t":e["t"],"off":e["off"],
                    "lat":-1,"cmin":cmin,"cmax":cmax,"outcome":"none","cf":false,"sab":"?","sba":"?"}));
            }
            "send_end" => {
                if let Some(s) = cur_send.take() {
                    out.push(s);
                }
            }
            "setlat" => {
                cfgs.apply(&e);
                out.push(e);
            }
            "step_end" => {
                for (h, ids) in std::mem::take(&mut got) {
                    out.push(json!({"ev":"stray_delivered","h":h,"ids":ids}));
                }
                out.push(e);
            }
            _ => out.push(e),
        }
    }
    out
}

/// Mirror of the latency configuration as the harness set it, replayed in
/// event order so each send is stamped with the configuration in force.
struct CfgMirror {
    gmin: u64,
    gmax: u64,
    lover: BTreeMap<(usize, usize), (u64, u64)>,
}
impl CfgMirror {
    fn eff(&self, a: usize, b: usize) -> (u64, u64) {
        *self.lover.get(&pair(a, b)).unwrap_or(&(self.gmin, self.gmax))
    }
    fn apply(&mut self, e: &Value) {
        let (a, b, v) = (
            e["a"].as_u64().unwrap() as usize,
            e["b"].as_u64().unwrap() as usize,
            e["v"].as_u64().unwrap(),
        );
        match e["kind"].as_str().unwrap() {
            "link" => {
                self.lover.insert(pair(a, b), (v, v));
            }
            "linkmax" => {
                let (mn, _) = self.eff(a, b);
                self.lover.insert(pair(a, b), (mn, v));
            }
            "max" => self.gmax = v,
            _ => {}
        }
    }
}

// ---------------------------------------------------------------------------
// replay of TLC behaviours

struct ReplayOut {
    divergence: Option<Value>,
    trace: Vec<Value>,
    nontrivial: bool,
}

fn replay_one(beh: &[Value], cfg: &Cfg, full: bool) -> ReplayOut {
    let mut run = Run::new(cfg);
    let mut mirror = CfgMirror { gmin: cfg.gmin, gmax: cfg.gmax, lover: BTreeMap::new() };
    let mut divergence = None;
    let mut recv_log: Vec<Vec<(u64, u64, u64)>> = vec![Vec::new(); cfg.n + 1];
    let mut model_step = 0u64;
    let mut i = 0;
    let mut has_ctl = false;
    let mut has_recv = false;
    let mut all_raw: Vec<Value> = Vec::new();
    while i < beh.len() && (full || divergence.is_none()) {
        let a = &beh[i];
        let name = a["a"].as_str().unwrap();
        match name {
            "ctl" => {
                has_ctl = true;
                run.ctl(
                    a["op"].as_str().unwrap(),
                    a["x"].as_u64().unwrap() as usize,
                    a["y"].as_u64().unwrap() as usize,
                );
                i += 1;
            }
            "manual" => {
                has_ctl = true;
                let p = a["p"].as_array().unwrap();
                let want = a["id"].as_u64().unwrap();
                let got = run.manual(
                    p[0].as_u64().unwrap() as usize,
                    p[1].as_u64().unwrap() as usize,
                    a["k"].as_u64().unwrap() as usize,
                );
                if got != Some(want) && divergence.is_none() {
                    divergence = Some(json!({"at":i,"what":"manual","want":want,"got":got}));
                }
                i += 1;
            }
            "set_link_latency" => {
                has_ctl = true;
                let p = a["p"].as_array().unwrap();
                run.set_link_latency(
                    p[0].as_u64().unwrap() as usize,
                    p[1].as_u64().unwrap() as usize,
                    a["v"].as_u64().unwrap(),
                );
                i += 1;
            }
            "set_link_max_latency" => {
                has_ctl = true;
                let p = a["p"].as_array().unwrap();
                run.set_link_max_latency(
                    p[0].as_u64().unwrap() as usize,
                    p[1].as_u64().unwrap() as usize,
                    a["v"].as_u64().unwrap(),
                );
                i += 1;
            }
            "set_max_latency" => {
                run.set_max_latency(a["v"].as_u64().unwrap());
                i += 1;
            }
            "step_begin" => {
                model_step += 1;
                // collect the host commands of this step
                let mut per_host: Vec<Vec<Cmd>> = vec![Vec::new(); cfg.n + 1];
                let mut cur = 0usize;
                let mut j = i + 1;
                let mut pred_outcomes: Vec<(u64, String)> = Vec::new();
                while beh[j]["a"] != "step_end" {
                    let b = &beh[j];
                    match b["a"].as_str().unwrap() {
                        "turn" => cur = b["h"].as_u64().unwrap() as usize,
                        "send" => {
                            per_host[cur].push(Cmd::Send {
                                dst: b["dst"].as_u64().unwrap() as usize,
                                off: b["off"].as_u64().unwrap(),
                                id: b["id"].as_u64().unwrap(),
                            });
                            pred_outcomes.push((b["id"].as_u64().unwrap(), b["outcome"].as_str().unwrap().to_string()));
                        }
                        "ctl" => {
                            has_ctl = true;
                            per_host[cur].push(Cmd::Ctl {
                                op: b["op"].as_str().unwrap().to_string(),
                                a: b["x"].as_u64().unwrap() as usize,
                                b: b["y"].as_u64().unwrap() as usize,
                            })
                        }
                        other => panic!("unexpected in-step action {other}"),
                    }
                    j += 1;
                }
                run.step(per_host);
                // observations of this step
                let raw = rec::take();
                for e in &raw {
                    if e["ev"] == "recv" {
                        let h = e["h"].as_u64().unwrap() as usize;
                        recv_log[h].push((e["id"].as_u64().unwrap(), e["at"].as_u64().unwrap(), model_step));
                        has_recv = true;
                    }
                }
                all_raw.extend(raw);
                let links = run.links_event();
                all_raw.extend(rec::take());
                // compare with the prediction carried by step_end
                let se = &beh[j];
                let pr = se["rcvd"].as_array().unwrap();
                for h in 1..=cfg.n {
                    let want: Vec<(u64, u64, u64)> = pr[h - 1]
                        .as_array()
                        .unwrap()
                        .iter()
                        .map(|r| (r["id"].as_u64().unwrap(), r["at"].as_u64().unwrap(), r["step"].as_u64().unwrap()))
                        .collect();
                    if want != recv_log[h] && divergence.is_none() {
                        divergence = Some(json!({"at":j,"what":"rcvd","h":h,"step":model_step,
                            "want":format!("{want:?}"),"got":format!("{:?}", recv_log[h])}));
                        break;
                    }
                }
                {
                    // links: prediction is indexed by LinkSeq order = Sim::links iteration order
                    let pl = se["links"].as_array().unwrap();
                    let got: Vec<Vec<u64>> = links.iter().map(|x| x.2.clone()).collect();
                    let want: Vec<Vec<u64>> = pl
                        .iter()
                        .map(|x| x.as_array().unwrap().iter().map(|v| v.as_u64().unwrap()).collect())
                        .collect();
                    if got != want && divergence.is_none() {
                        divergence = Some(json!({"at":j,"what":"links","step":model_step,
                            "want":format!("{want:?}"),"got":format!("{got:?}")}));
                    }
                }
                i = j + 1;
            }
            other => panic!("unexpected action {other}"),
        }
        all_raw.extend(rec::take());
    }
    if full {
        // let every bounded-delivery deadline of the PropSpec pass
        for _ in 0..((cfg.gmax + 16) / cfg.tick + 4) {
            run.step(vec![Vec::new(); cfg.n + 1]);
            all_raw.extend(rec::take());
            run.links_event();
            all_raw.extend(rec::take());
        }
    }
    let trace = postprocess(all_raw, &run, &mut mirror);
    ReplayOut { divergence, trace, nontrivial: has_ctl && has_recv }
}

fn parse_reg(args: &[String], n: usize) -> Vec<usize> {
    match util::arg(args, "reg") {
        Some(s) => s.split(',').map(|x| x.trim().parse().expect("reg")).collect(),
        None => (1..=n).collect(),
    }
}

fn main_replay(args: &[String]) {
    let inp = util::arg(args, "in").expect("in=");
    let out = util::arg(args, "out").expect("out=");
    let traces = util::arg(args, "traces");
    let cfg = Cfg {
        n: util::arg_u64(args, "n", 2) as usize,
        tick: util::arg_u64(args, "tick", 2),
        gmin: util::arg_u64(args, "gmin", 0),
        gmax: util::arg_u64(args, "gmax", 0),
        fail: 0.0,
        repair: 1.0,
        random_order: false,
        seed: 1,
        curve: None,
        ipv6: false,
        runtime_fail: false,
        reg: parse_reg(args, util::arg_u64(args, "n", 2) as usize),
    };
    let text = std::fs::read_to_string(&inp).expect("read behaviours");
    let mut total = 0u64;
    let mut nontrivial = 0u64;
    let mut divs: Vec<Value> = Vec::new();
    let mut samples: Vec<Value> = Vec::new();
    let mut ndiv = 0u64;
    rec::with_recorder(|| {
        for (k, line) in text.lines().enumerate() {
            if line.trim().is_empty() {
                continue;
            }
            let beh: Vec<Value> = serde_json::from_str(line).expect("behaviour json");
            let r = match util::catch(|| replay_one(&beh, &cfg, false)) {
                Ok(r) => r,
                Err(p) => ReplayOut {
                    divergence: Some(json!({"what":"panic","msg":p})),
                    trace: vec![],
                    nontrivial: false,
                },
            };
            total += 1;
            if r.nontrivial {
                nontrivial += 1;
            }
            if samples.len() < 2 && r.nontrivial {
                samples.push(json!({"behaviour": beh, "trace_excerpt": r.trace.iter().take(12).collect::<Vec<_>>()}));
            }
            if let Some(d) = r.divergence {
                ndiv += 1;
                if divs.len() < 20 {
                    let mut d = d;
                    d["line"] = json!(k);
                    if let Some(dir) = &traces {
                        let p = format!("{dir}/div-{}.ndjson", divs.len());
                        // second pass: run the whole behaviour plus drain steps so the
                        // PropSpec can judge the complete observation
                        let full = util::catch(|| replay_one(&beh, &cfg, true))
                            .map(|r| r.trace)
                            .unwrap_or(r.trace.clone());
                        util::write_ndjson(&p, &full);
                        d["trace"] = json!(p);
                        d["behaviour"] = json!(beh);
                    }
                    divs.push(d);
                }
            }
        }
    });
    let summary = json!({"behaviours": total, "nontrivial": nontrivial, "divergent": ndiv,
        "divergences": divs, "samples": samples});
    std::fs::write(&out, serde_json::to_string(&summary).unwrap()).unwrap();
    println!("replayed={total} nontrivial={nontrivial} divergent={ndiv}");
}

// ---------------------------------------------------------------------------
// random scenarios (code -> spec)

fn main_random(args: &[String]) {
    let seed = util::arg_u64(args, "seed", 1);
    let runs = util::arg_u64(args, "runs", 20);
    let n = util::arg_u64(args, "n", 3) as usize;
    let tick = util::arg_u64(args, "tick", 2);
    let gmin = util::arg_u64(args, "gmin", 0);
    let gmax = util::arg_u64(args, "gmax", 5);
    let mode = util::arg(args, "mode").unwrap_or("part".into());
    let steps = util::arg_u64(args, "steps", 12);
    let out = util::arg(args, "out").expect("out=");
    let mut rng = SmallRng::seed_from_u64(seed ^ 0x746f706c);
    let mut all: Vec<Value> = Vec::new();
    let mut nsend = 0u64;
    let mut nctl = 0u64;
    rec::with_recorder(|| {
        for r in 0..runs {
            let fail_on = mode == "part" && rng.random_bool(0.5);
            let cfg = Cfg {
                n,
                tick,
                gmin,
                gmax,
                fail: if fail_on { rng.random_range(0.05..0.5) } else { 0.0 },
                repair: if fail_on { rng.random_range(0.1..1.0) } else { 1.0 },
                random_order: rng.random_bool(0.5),
                seed: seed.wrapping_mul(1000).wrapping_add(r),
                // distribution parameter: flat curves put most samples at the upper end of the range
                curve: if rng.random_bool(0.5) { Some([0.2, 1.0, 20.0][rng.random_range(0..3)]) } else { None },
                ipv6: rng.random_bool(0.3),
                runtime_fail: fail_on && rng.random_bool(0.5),
                reg: parse_reg(args, n),
            };
            let runtime_fail = cfg.runtime_fail;
            let mut run = Run::new(&cfg);
            let mut mirror = CfgMirror { gmin, gmax, lover: BTreeMap::new() };
            let mut raw: Vec<Value> = rec::take();
            let mut next_id = 1u64;
            let ops: &[&str] = match mode.as_str() {
                "part" => &["partition", "partition_oneway", "repair", "repair_oneway"],
                "hold" => &["hold", "release", "hold", "release", "repair"],
                _ => &[],
            };
            for _s in 0..steps {
                // controller actions between steps
                if !ops.is_empty() && rng.random_bool(0.45) {
                    let a = rng.random_range(1..=n);
                    let mut b = rng.random_range(1..=n);
                    if b == a {
                        b = a % n + 1;
                    }
                    let op = ops[rng.random_range(0..ops.len())];
                    if n >= 3 && rng.random_bool(0.3) {
                        // host sets by regex: two random non-empty subsets (sorted = registration order)
                        let pick = |rng: &mut SmallRng| -> Vec<usize> {
                            let mut v: Vec<usize> = (1..=n).filter(|_| rng.random_bool(0.5)).collect();
                            if v.is_empty() {
                                v.push(rng.random_range(1..=n));
                            }
                            v
                        };
                        let (sa, sb) = (pick(&mut rng), pick(&mut rng));
                        run.ctl_sets(op, &sa, &sb);
                    } else {
                        run.ctl(op, a, b);
                    }
                    nctl += 1;
                }
                if runtime_fail && rng.random_bool(0.2) {
                    // fail rates changed while the run is in progress, globally or for one link
                    let rate = [0.0, 0.1, 0.4][rng.random_range(0..3)];
                    if rng.random_bool(0.5) {
                        let a = rng.random_range(1..=n);
                        run.set_fail(Some((a, a % n + 1)), rate);
                    } else {
                        run.set_fail(None, rate);
                    }
                }
                if mode == "hold" && rng.random_bool(0.1) {
                    // LinkIter::deliver_all on a random link
                    let a = rng.random_range(1..=n);
                    run.manual_all(a, a % n + 1);
                    nctl += 1;
                }
                if mode == "hold" && rng.random_bool(0.3) {
                    // manual delivery of a random in-flight message
                    let l = run.links();
                    let cands: Vec<(usize, usize, usize)> = l
                        .iter()
                        .flat_map(|(a, b, ids)| (1..=ids.len()).map(move |k| (*a, *b, k)))
                        .collect();
                    if !cands.is_empty() {
                        let (a, b, k) = cands[rng.random_range(0..cands.len())];
                        run.manual(a, b, k);
                        nctl += 1;
                    }
                }
                if mode == "lat" && n >= 3 && rng.random_bool(0.12) {
                    // per-link setters on host sets named by regex
                    let pick = |rng: &mut SmallRng| -> Vec<usize> {
                        let mut v: Vec<usize> = (1..=n).filter(|_| rng.random_bool(0.6)).collect();
                        if v.is_empty() {
                            v.push(rng.random_range(1..=n));
                        }
                        v
                    };
                    let (sa, sb) = (pick(&mut rng), pick(&mut rng));
                    if rng.random_bool(0.6) {
                        run.set_link_latency_sets(&sa, &sb, rng.random_range(0..=gmax + 3), false);
                    } else {
                        // a max-only override must not go below any affected link's minimum
                        let lo = sa
                            .iter()
                            .flat_map(|&x| sb.iter().map(move |&y| (x, y)))
                            .filter(|(x, y)| x != y)
                            .map(|(x, y)| run.eff(x, y).0)
                            .max()
                            .unwrap_or(gmin);
                        run.set_link_latency_sets(&sa, &sb, rng.random_range(lo..=lo + 6), true);
                    }
                }
                if mode == "lat" && rng.random_bool(0.25) {
                    let a = rng.random_range(1..=n);
                    let b = a % n + 1;
                    match rng.random_range(0..3) {
                        0 => run.set_link_latency(a, b, rng.random_range(0..=gmax + 3)),
                        1 => {
                            let (mn, _) = {
                                // effective min after everything set so far
                                let mut m = CfgMirror { gmin, gmax: run.gmax, lover: run.lover.clone() };
                                let _ = &mut m;
                                m.eff(a, b)
                            };
                            run.set_link_max_latency(a, b, rng.random_range(mn..=mn + 6))
                        }
                        _ => run.set_max_latency(rng.random_range(gmin..=gmin + 7)),
                    }
                }
                // host commands
                let mut per_host: Vec<Vec<Cmd>> = vec![Vec::new(); n + 1];
                for h in 1..=n {
                    let k = rng.random_range(0..=2);
                    let mut off = 0;
                    for _ in 0..k {
                        let mut dst = rng.random_range(1..=n);
                        if dst == h {
                            dst = h % n + 1;
                        }
                        if tick > 1 && rng.random_bool(0.4) {
                            off = rng.random_range(off..tick);
                        }
                        per_host[h].push(Cmd::Send { dst, off, id: next_id });
                        next_id += 1;
                        nsend += 1;
                    }
                    if !ops.is_empty() && rng.random_bool(0.1) {
                        let a = rng.random_range(1..=n);
                        let b = a % n + 1;
                        let op = ops[rng.random_range(0..ops.len())];
                        per_host[h].push(Cmd::Ctl { op: op.to_string(), a, b });
                        nctl += 1;
                    }
                }
                run.step(per_host);
                raw.extend(rec::take());
                run.links_event();
                raw.extend(rec::take());
            }
            // drain: enough quiet steps for everything to arrive
            for _ in 0..((gmax + 12) / tick + 3) {
                run.step(vec![Vec::new(); n + 1]);
                raw.extend(rec::take());
            }
            all.extend(postprocess(raw, &run, &mut mirror));
        }
    });
    util::write_ndjson(&out, &all);
    println!("runs={runs} events={} sends={nsend} ctl={nctl}", all.len());
}

fn main() {
    let args: Vec<String> = std::env::args().skip(1).collect();
    match args.first().map(|s| s.as_str()) {
        Some("replay") => main_replay(&args[1..]),
        Some("random") => main_random(&args[1..]),
        _ => {
            eprintln!("usage: toplink replay|random key=value...");
            std::process::exit(2);
        }
    }
}
