//! Driver for the simulation loop / clocks / crash+bounce (specs/simrun): C05, C11, C04.
//!
//! Modes
//!   replay in=<behaviours.ndjson> out=<summary.json> traces=<dir> tick= duration= epoch=
//!       every line is one TLC-generated behaviour of SimRunGen: the calls of the
//!       test thread (register / step / run / crash / bounce) are executed against
//!       the real `turmoil::Sim`, everything the programs and the test thread
//!       observe is recorded and compared with what TLC predicted.  Divergent
//!       behaviours get their recorded trace written to <traces>/div-<k>.ndjson
//!       so that the PropSpec can judge them.
//!   random seed= runs= tick= duration= epoch= out=<trace.ndjson>
//!       seeded random scenarios (random scripts, random host order, crash /
//!       bounce / late registration); one concatenated trace, `reset` between runs.
//!   crash ...   C04 workloads with fault schedules, see the second half of the file.
use rand::rngs::SmallRng;
use rand::{Rng, SeedableRng};
use serde_json::{json, Value};
use std::cell::RefCell;
use std::collections::BTreeMap;
use std::time::{Duration, UNIX_EPOCH};
use vh::{rec, util};

/// Length of the model's time unit in microseconds: 1000 (one millisecond) everywhere except in the
/// `subms` mode of `random`, where `unit_us=500` makes a tick of 5 units a 2.5 ms tick.
static UNIT_US: std::sync::atomic::AtomicU64 = std::sync::atomic::AtomicU64::new(1000);
fn unit_us() -> u64 {
    UNIT_US.load(std::sync::atomic::Ordering::Relaxed)
}

fn ms(k: u64) -> Duration {
    Duration::from_micros(k * unit_us())
}

/// whole units (milliseconds unless `unit_us` says otherwise), or -1
fn whole_ms(d: Duration) -> i64 {
    let unit_ns = unit_us() as u128 * 1000;
    if d.as_nanos() % unit_ns == 0 {
        (d.as_nanos() / unit_ns) as i64
    } else {
        -1
    }
}

thread_local! {
    /// activity counters, index = node id (slot 0 unused)
    static POLLS: RefCell<Vec<u64>> = const { RefCell::new(Vec::new()) };
}

thread_local! {
    /// current incarnation of every node (slot 0 unused): bumped by the software factory
    static INCS: RefCell<Vec<u64>> = const { RefCell::new(Vec::new()) };
}

/// Is `inc` still the incarnation of node h that the simulation is supposed to run?  Code of an
/// incarnation that was replaced by Sim::bounce must never run again; if it does, that is recorded.
fn live(h: usize, inc: u64) -> bool {
    let cur = INCS.with(|i| i.borrow().get(h).copied().unwrap_or(0));
    if cur != inc {
        rec::emit(json!({"ev":"stale","h":h,"inc":inc,"cur":cur}));
    }
    cur == inc
}

/// The epoch the Builder gets has a sub-millisecond part; clock readings that include the epoch
/// are recorded as whole milliseconds *after removing exactly that configured part* (-1 if what
/// remains is not a whole number of milliseconds).
const EPOCH_FRAC: Duration = Duration::from_nanos(123_456);
fn whole_ms_epoch(d: Duration) -> i64 {
    d.checked_sub(EPOCH_FRAC).map(whole_ms).unwrap_or(-1)
}

fn polls() -> Vec<u64> {
    POLLS.with(|p| p.borrow().iter().skip(1).copied().collect())
}

#[derive(Clone, Debug)]
struct Script {
    kind: String,
    pat: Vec<u64>,
    out: String,
    tpat: Vec<u64>,
    tout: String,
}

impl Script {
    fn from_json(v: &Value) -> Script {
        let arr = |x: &Value| -> Vec<u64> {
            x.as_array()
                .map(|a| a.iter().map(|y| y.as_u64().unwrap()).collect())
                .unwrap_or_default()
        };
        Script {
            kind: v["kind"].as_str().unwrap().to_string(),
            pat: arr(&v["pat"]),
            out: v["out"].as_str().unwrap().to_string(),
            tpat: arr(&v["tpat"]),
            tout: v["tout"].as_str().unwrap().to_string(),
        }
    }
}

/// One whole-millisecond wait through one of tokio's timer primitives.
async fn wait_ms(k: u64, prim: u64) {
    if k == 0 {
        tokio::time::sleep(Duration::ZERO).await;
        return;
    }
    match prim % 4 {
        0 => tokio::time::sleep(ms(k)).await,
        1 => {
            let _ = tokio::time::timeout(ms(k), std::future::pending::<()>()).await;
        }
        2 => {
            let mut iv = tokio::time::interval(ms(k));
            iv.tick().await; // completes immediately
            iv.tick().await;
        }
        _ => tokio::time::sleep_until(tokio::time::Instant::now() + ms(k)).await,
    }
}

async fn run_pat(h: usize, inc: u64, task: &'static str, pat: Vec<u64>) {
    for (i, k) in pat.into_iter().enumerate() {
        let st = whole_ms(turmoil::elapsed());
        let i0 = tokio::time::Instant::now();
        wait_ms(k, (h + i) as u64).await;
        let el = turmoil::elapsed();
        let sim = turmoil::sim_elapsed().expect("sim_elapsed");
        let ep = turmoil::since_epoch().expect("since_epoch");
        let di = tokio::time::Instant::now() - i0;
        if !live(h, inc) {
            continue;
        }
        rec::emit(json!({"ev":"sample","h":h,"task":task,"k":k,"st":st,"el":whole_ms(el),
            "sim":whole_ms(sim),"ep":whole_ms_epoch(ep),"di":whole_ms(di)}));
    }
}

async fn heartbeat(h: usize, inc: u64) {
    loop {
        if live(h, inc) {
            POLLS.with(|p| p.borrow_mut()[h] += 1);
            rec::emit(json!({"ev":"hb","h":h}));
        }
        tokio::time::sleep(ms(1)).await;
    }
}

async fn spawned(h: usize, inc: u64, tpat: Vec<u64>, tout: String) -> Result<(), String> {
    run_pat(h, inc, "t", tpat).await;
    match tout.as_str() {
        "Panic" => {
            live(h, inc);
            rec::emit(json!({"ev":"panic","h":h,"task":"t"}));
            panic!("scripted panic in a spawned task");
        }
        "Err" => return Err("scripted error in a spawned task".to_string()),
        "Never" => std::future::pending::<()>().await,
        _ => {}
    }
    Ok(())
}

async fn software(h: usize, inc: u64, sc: Script) -> turmoil::Result {
    tokio::task::spawn_local(heartbeat(h, inc));
    if sc.tout == "Panic" {
        // announce the panic the spawned task is scripted to raise (whole-millisecond timers from now)
        let now = whole_ms(turmoil::sim_elapsed().expect("sim_elapsed"));
        rec::emit(json!({"ev":"will_panic","h":h,"at": now + sc.tpat.iter().sum::<u64>() as i64}));
    }
    if sc.tout != "none" {
        // alternate between the LocalSet and the runtime's own task queue
        if h % 2 == 0 {
            tokio::spawn(spawned(h, inc, sc.tpat.clone(), sc.tout.clone()));
        } else {
            tokio::task::spawn_local(spawned(h, inc, sc.tpat.clone(), sc.tout.clone()));
        }
    }
    run_pat(h, inc, "m", sc.pat.clone()).await;
    live(h, inc);
    let at = whole_ms(turmoil::sim_elapsed().expect("sim_elapsed"));
    match sc.out.as_str() {
        "Ok" => {
            rec::emit(json!({"ev":"fin","h":h,"out":"Ok","at":at}));
            Ok(())
        }
        "Err" => {
            rec::emit(json!({"ev":"fin","h":h,"out":"Err","at":at}));
            if (h as u64 + inc) % 2 == 0 {
                // the software's own error happens to be a cancelled JoinError: it aborts a
                // worker task and propagates what joining it returns
                let worker = tokio::task::spawn_local(std::future::pending::<()>());
                worker.abort();
                worker.await?;
            }
            Err("scripted error")?
        }
        "Panic" => {
            rec::emit(json!({"ev":"panic","h":h,"task":"m"}));
            panic!("scripted panic");
        }
        _ => {
            std::future::pending::<()>().await;
            Ok(())
        }
    }
}

struct Cfg {
    tick: u64,
    duration: u64,
    epoch: u64,
    random_order: bool,
    seed: u64,
}

struct Run<'a> {
    sim: turmoil::Sim<'a>,
    n: usize,
    dead: bool,
}

fn nname(n: usize) -> String {
    format!("n{n}")
}

impl<'a> Run<'a> {
    fn new(cfg: &Cfg) -> Run<'a> {
        let mut b = turmoil::Builder::new();
        b.tick_duration(ms(cfg.tick))
            .simulation_duration(ms(cfg.duration))
            .epoch(UNIX_EPOCH + ms(cfg.epoch) + EPOCH_FRAC)
            .rng_seed(cfg.seed);
        if cfg.random_order {
            b.enable_random_order();
        }
        POLLS.with(|p| *p.borrow_mut() = vec![0]);
        INCS.with(|p| *p.borrow_mut() = vec![0]);
        rec::take();
        rec::emit(json!({"ev":"reset","tick":cfg.tick,"duration":cfg.duration,"epoch":cfg.epoch,
            "random":cfg.random_order}));
        Run { sim: b.build(), n: 0, dead: false }
    }

    fn look(&self) -> (i64, i64) {
        (whole_ms(self.sim.elapsed()), whole_ms_epoch(self.sim.since_epoch()))
    }

    fn register(&mut self, sc: &Script) {
        self.n += 1;
        let n = self.n;
        POLLS.with(|p| p.borrow_mut().push(0));
        INCS.with(|p| p.borrow_mut().push(0));
        let (e, _) = self.look();
        let next_inc = move || {
            INCS.with(|p| {
                p.borrow_mut()[n] += 1;
                p.borrow()[n]
            })
        };
        if sc.kind == "client" {
            self.sim.client(nname(n), software(n, next_inc(), sc.clone()));
        } else {
            let sc2 = sc.clone();
            self.sim.host(nname(n), move || software(n, next_inc(), sc2.clone()));
        }
        rec::emit(json!({"ev":"reg","n":n,"kind":sc.kind,"e":e,"pat":sc.pat,"out":sc.out,
            "tpat":sc.tpat,"tout":sc.tout}));
    }

    fn step(&mut self) {
        let sim = &mut self.sim;
        let r = util::catch(|| sim.step());
        let (e, se) = self.look();
        match r {
            Ok(Ok(b)) => {
                rec::emit(json!({"ev":"step_end","res": if b {"true"} else {"false"},"known":true,
                    "e":e,"se":se,"polls":polls()}));
            }
            Ok(Err(_)) => {
                rec::emit(json!({"ev":"step_end","res":"Err","known":true,"e":e,"se":se,"polls":polls()}));
            }
            Err(_) => {
                self.dead = true;
                rec::emit(json!({"ev":"step_end","res":"Panic","known":false,"e":0,"se":0,"polls":[]}));
            }
        }
    }

    fn run(&mut self) {
        rec::emit(json!({"ev":"run_begin"}));
        let sim = &mut self.sim;
        let r = util::catch(|| sim.run());
        let (e, se) = self.look();
        match r {
            Ok(Ok(())) => rec::emit(json!({"ev":"run_end","res":"Ok","e":e,"se":se,"polls":polls()})),
            Ok(Err(_)) => rec::emit(json!({"ev":"run_end","res":"Err","e":e,"se":se,"polls":polls()})),
            Err(_) => {
                self.dead = true;
                rec::emit(json!({"ev":"run_end","res":"Panic","e":0,"se":0,"polls":[]}));
            }
        }
    }

    fn crash(&mut self, h: usize) {
        self.sim.crash(nname(h));
        rec::emit(json!({"ev":"crash","h":h,"polls":polls()}));
    }

    fn bounce(&mut self, h: usize) {
        self.sim.bounce(nname(h));
        rec::emit(json!({"ev":"bounce","h":h,"polls":polls()}));
    }
}

/// Turn the raw recorded stream into model-level events.  Purely syntactic:
/// turmoil's `step N` tracing events become `step`; the first event of a node
/// inside a step opens its turn (`turn`), the next node's first event / the
/// end of the step closes it (`turn_end`); inside Sim::run, where the test
/// thread cannot look, the end of a step is implied by the next `step N`
/// (result "false") or by the return of run.
fn postprocess(raw: Vec<Value>) -> Vec<Value> {
    let mut out: Vec<Value> = Vec::new();
    let mut in_step = false;
    let mut cur = 0u64;
    let mut err_by_cur = false;
    let mut panicked = false;
    // close the turn of `cur` unless the step ends through it (Err harvest / panic)
    fn close_turn(out: &mut Vec<Value>, cur: &mut u64, ends_step: bool) {
        if *cur != 0 && !ends_step {
            out.push(json!({"ev":"turn_end","h":*cur}));
        }
        *cur = 0;
    }
    for e in raw {
        let ev = e["ev"].as_str().unwrap_or("").to_string();
        match ev.as_str() {
            "t" => {
                let msg = e["message"].as_str().unwrap_or("");
                if let Some(n) = msg.strip_prefix("step ") {
                    if in_step {
                        // inside run: the previous step returned Ok(false)
                        close_turn(&mut out, &mut cur, false);
                        out.push(json!({"ev":"step_end","res":"false","known":false,"e":0,"se":0,"polls":[]}));
                    }
                    in_step = true;
                    err_by_cur = false;
                    panicked = false;
                    out.push(json!({"ev":"step","n":n.trim().parse::<u64>().unwrap_or(0)}));
                }
            }
            "hb" | "sample" | "fin" | "panic" | "will_panic" => {
                let h = e["h"].as_u64().unwrap();
                if in_step && h != cur {
                    close_turn(&mut out, &mut cur, false);
                    cur = h;
                    err_by_cur = false;
                    out.push(json!({"ev":"turn","h":h}));
                }
                if ev == "fin" && e["out"] == "Err" {
                    err_by_cur = true;
                }
                if ev == "panic" {
                    panicked = true;
                }
                if ev != "hb" {
                    out.push(e);
                }
            }
            "step_end" => {
                let ends = (e["res"] == "Err" && err_by_cur) || (e["res"] == "Panic" && panicked);
                close_turn(&mut out, &mut cur, ends);
                in_step = false;
                out.push(e);
            }
            "run_end" => {
                if in_step {
                    let res = match e["res"].as_str().unwrap() {
                        "Ok" => "true",
                        "Err" => "Err",
                        _ => "Panic",
                    };
                    let ends = (res == "Err" && err_by_cur) || (res == "Panic" && panicked);
                    close_turn(&mut out, &mut cur, ends);
                    out.push(json!({"ev":"step_end","res":res,"known":false,"e":0,"se":0,"polls":[]}));
                    in_step = false;
                }
                out.push(e);
            }
            _ => out.push(e),
        }
    }
    out
}

/// Canonical form used to compare the TLC prediction with the recorded run:
/// per step the order of turns, the samples per (node, task), the completions
/// and panics, and the result; per call of the test thread its result.  What
/// the test thread cannot see inside Sim::run (Sim::elapsed and the counters
/// after each step) is dropped from the prediction.
fn canon(events: &[Value], keep_turn_order: bool) -> Vec<Value> {
    let mut out = Vec::new();
    let mut in_run = false;
    let mut turns: Vec<u64> = Vec::new();
    let mut samples: BTreeMap<String, Vec<Value>> = BTreeMap::new();
    let mut fins: Vec<Value> = Vec::new();
    let mut panics: Vec<u64> = Vec::new();
    for e in events {
        match e["ev"].as_str().unwrap_or("") {
            "reset" => {}
            "reg" => out.push(json!({"ev":"reg","n":e["n"],"kind":e["kind"]})),
            "crash" | "bounce" => out.push(json!({"ev":e["ev"],"h":e["h"]})),
            "run_begin" => {
                in_run = true;
                out.push(json!({"ev":"run_begin"}));
            }
            "run_end" => {
                in_run = false;
                if e["res"] == "Panic" {
                    out.push(json!({"ev":"run_end","res":"Panic"}));
                } else {
                    out.push(json!({"ev":"run_end","res":e["res"],"e":e["e"],"polls":e["polls"]}));
                }
            }
            "step" => out.push(json!({"ev":"step","n":e["n"]})),
            "turn" => turns.push(e["h"].as_u64().unwrap()),
            "turn_end" => {}
            "sample" => {
                let key = format!("{}:{}", e["h"], e["task"].as_str().unwrap_or("?"));
                samples.entry(key).or_default().push(
                    json!([e["k"], e["st"], e["el"], e["sim"], e["ep"], e["di"]]),
                );
            }
            "fin" => fins.push(json!([e["h"], e["out"], e["at"]])),
            "panic" => panics.push(e["h"].as_u64().unwrap()),
            "step_end" => {
                let mut t = std::mem::take(&mut turns);
                if !keep_turn_order {
                    t.sort();
                }
                let panicked = e["res"] == "Panic";
                let mut o = json!({"ev":"step_end","res":e["res"],"turns":t,
                    "samples": if panicked { json!(null) } else { json!(samples) },
                    "fins": if panicked { json!(null) } else { json!(fins) },
                    "panics": std::mem::take(&mut panics)});
                samples.clear();
                fins.clear();
                if !in_run && !panicked {
                    o["e"] = e["e"].clone();
                    o["polls"] = e["polls"].clone();
                }
                out.push(o);
            }
            _ => {}
        }
    }
    out
}

/// Rewrite a behaviour (list of `last` labels of SimRun) into the event vocabulary.
fn predicted_events(beh: &[Value]) -> Vec<Value> {
    beh.iter()
        .map(|a| {
            let mut e = a.clone();
            let name = a["a"].as_str().unwrap();
            let ev = match name {
                "register" => "reg",
                "step_begin" => "step",
                other => other,
            };
            e["ev"] = json!(ev);
            e
        })
        .collect()
}

struct ReplayOut {
    divergence: Option<Value>,
    trace: Vec<Value>,
    nontrivial: bool,
}

fn replay_one(beh: &[Value], cfg: &Cfg) -> ReplayOut {
    let mut run = Run::new(cfg);
    let mut in_run = false;
    let mut faults = false;
    for a in beh {
        if run.dead {
            break;
        }
        match a["a"].as_str().unwrap() {
            "register" => run.register(&Script::from_json(a)),
            "crash" => {
                faults = true;
                run.crash(a["h"].as_u64().unwrap() as usize)
            }
            "bounce" => {
                faults = true;
                run.bounce(a["h"].as_u64().unwrap() as usize)
            }
            "run_begin" => {
                in_run = true;
                run.run();
            }
            "run_end" => in_run = false,
            "step_begin" if !in_run => run.step(),
            _ => {}
        }
    }
    let trace = postprocess(rec::take());
    let want = canon(&predicted_events(beh), true);
    let got = canon(&trace, true);
    let mut divergence = None;
    if want != got {
        let k = want
            .iter()
            .zip(got.iter())
            .position(|(a, b)| a != b)
            .unwrap_or(want.len().min(got.len()));
        divergence = Some(json!({"what":"observation","index":k,
            "want": want.get(k).cloned().unwrap_or(json!(null)),
            "got": got.get(k).cloned().unwrap_or(json!(null))}));
    }
    // non-trivial: some program observation depends on a controller decision beyond
    // a single registration (a second node, a crash / bounce, a late registration)
    let observed = trace.iter().any(|e| e["ev"] == "sample" || e["ev"] == "fin" || e["ev"] == "panic");
    let nontrivial = observed && (faults || beh.iter().filter(|a| a["a"] == "register").count() > 1);
    ReplayOut { divergence, trace, nontrivial }
}

fn cfg_from_args(args: &[String]) -> Cfg {
    Cfg {
        tick: util::arg_u64(args, "tick", 2),
        duration: util::arg_u64(args, "duration", 10),
        epoch: util::arg_u64(args, "epoch", 1000),
        random_order: util::arg_u64(args, "random_order", 0) == 1,
        seed: util::arg_u64(args, "seed", 1),
    }
}

fn main_replay(args: &[String]) {
    let inp = util::arg(args, "in").expect("in=");
    let out = util::arg(args, "out").expect("out=");
    let traces = util::arg(args, "traces");
    let keep = util::arg(args, "keep"); // write the first `keepn` traces concatenated to this file
    let keepn = util::arg_u64(args, "keepn", 200);
    let cfg = cfg_from_args(args);
    let text = std::fs::read_to_string(&inp).expect("read behaviours");
    let mut total = 0u64;
    let mut nontrivial = 0u64;
    let mut ndiv = 0u64;
    let mut divs: Vec<Value> = Vec::new();
    let mut kinds: BTreeMap<String, u32> = BTreeMap::new();
    let mut samples: Vec<Value> = Vec::new();
    let mut all: Vec<Value> = Vec::new();
    rec::with_recorder(|| {
        for (k, line) in text.lines().enumerate() {
            if line.trim().is_empty() {
                continue;
            }
            let beh: Vec<Value> = serde_json::from_str(line).expect("behaviour json");
            let r = match util::catch(|| replay_one(&beh, &cfg)) {
                Ok(r) => r,
                Err(p) => ReplayOut {
                    divergence: Some(json!({"what":"panic","msg":p})),
                    trace: vec![],
                    nontrivial: false,
                },
            };
            total += 1;
            if r.nontrivial {
                nontrivial += 1;
            }
            if samples.len() < 2 && r.nontrivial && r.trace.len() > 12 {
                samples.push(json!({"behaviour": beh, "trace_excerpt": r.trace.iter().take(14).collect::<Vec<_>>()}));
            }
            if keep.is_some() && total <= keepn {
                all.extend(r.trace.iter().cloned());
            }
            if let Some(mut d) = r.divergence {
                ndiv += 1;
                // keep a few divergences of every kind (expected / observed), not just the first ones
                let key = format!("{}/{}/{}/{}", d["want"]["ev"], d["want"]["res"], d["got"]["ev"], d["got"]["res"]);
                let seen = kinds.entry(key).or_insert(0u32);
                *seen += 1;
                if *seen <= 4 && divs.len() < 48 {
                    d["line"] = json!(k);
                    d["behaviour"] = json!(beh);
                    if let Some(dir) = &traces {
                        let p = format!("{dir}/div-{}.ndjson", divs.len());
                        util::write_ndjson(&p, &r.trace);
                        d["trace"] = json!(p);
                    }
                    divs.push(d);
                }
            }
        }
    });
    if let Some(k) = keep {
        util::write_ndjson(&k, &all);
    }
    let summary = json!({"behaviours": total, "nontrivial": nontrivial, "divergent": ndiv,
        "divergences": divs, "samples": samples});
    std::fs::write(&out, serde_json::to_string(&summary).unwrap()).unwrap();
    println!("replayed={total} nontrivial={nontrivial} divergent={ndiv}");
}

// ---------------------------------------------------------------------------
// random scenarios (code -> spec)

fn random_script(rng: &mut SmallRng, kind: &str, mode: &str) -> Script {
    let npat = rng.random_range(0..=3);
    let pat: Vec<u64> = (0..npat).map(|_| rng.random_range(0..=9)).collect();
    let out = if mode == "clock" {
        // clocks: long-lived software, no failures
        if kind == "client" && rng.random_bool(0.5) {
            "Ok"
        } else {
            "Never"
        }
    } else {
        match rng.random_range(0..10) {
            0 => "Err",
            1 => "Panic",
            2 | 3 => "Never",
            _ => "Ok",
        }
    };
    let tout = if mode == "clock" {
        if rng.random_bool(0.6) {
            "Never"
        } else {
            "none"
        }
    } else {
        match rng.random_range(0..8) {
            0 => "Panic",
            1 => "Err",
            2 => "Ok",
            _ => "none",
        }
    };
    let tpat: Vec<u64> = if tout == "none" {
        vec![]
    } else {
        (0..rng.random_range(1..=3)).map(|_| rng.random_range(0..=9)).collect()
    };
    Script { kind: kind.to_string(), pat, out: out.to_string(), tpat, tout: tout.to_string() }
}

fn main_random(args: &[String]) {
    let seed = util::arg_u64(args, "seed", 1);
    let runs = util::arg_u64(args, "runs", 20);
    let mode = util::arg(args, "mode").unwrap_or("run".into());
    let out = util::arg(args, "out").expect("out=");
    let base = cfg_from_args(args);
    let mut rng = SmallRng::seed_from_u64(seed ^ 0x73696d72);
    let mut all: Vec<Value> = Vec::new();
    let mut ncalls = 0u64;
    UNIT_US.store(util::arg_u64(args, "unit_us", 1000), std::sync::atomic::Ordering::Relaxed);
    rec::with_recorder(|| {
        for r in 0..runs {
            let cfg = Cfg {
                tick: base.tick,
                duration: base.duration,
                epoch: base.epoch,
                random_order: rng.random_bool(0.5),
                seed: seed.wrapping_mul(1000).wrapping_add(r),
            };
            let mut run = Run::new(&cfg);
            if mode == "subms" {
                // a tick that is not a whole number of milliseconds: only the simulation's own clock is read
                // (Sim::elapsed / since_epoch between steps).  No node is registered: tokio's paused clock
                // rounds timers up to whole milliseconds, so what programs observe there is outside the claim.
                for _ in 0..rng.random_range(3..=10) {
                    ncalls += 1;
                    run.step();
                }
                all.extend(postprocess(rec::take()));
                continue;
            }
            let mut hosts: Vec<usize> = Vec::new();
            let ncalls_here = rng.random_range(4..=12);
            for _ in 0..rng.random_range(1..=3) {
                let kind = if rng.random_bool(0.5) { "client" } else { "host" };
                run.register(&random_script(&mut rng, kind, &mode));
                if kind == "host" {
                    hosts.push(run.n);
                }
            }
            for _ in 0..ncalls_here {
                if run.dead {
                    break;
                }
                ncalls += 1;
                let x = rng.random_range(0..100);
                if x < 15 && run.n < 5 {
                    let kind = if rng.random_bool(0.5) { "client" } else { "host" };
                    run.register(&random_script(&mut rng, kind, &mode));
                    if kind == "host" {
                        hosts.push(run.n);
                    }
                } else if x < 22 && !hosts.is_empty() {
                    let h = hosts[rng.random_range(0..hosts.len())];
                    run.crash(h);
                } else if x < 30 && !hosts.is_empty() {
                    // repeated fault calls on one host: crash, downtime, crash again, downtime, bounce
                    let h = hosts[rng.random_range(0..hosts.len())];
                    run.crash(h);
                    for _ in 0..rng.random_range(0..=2) {
                        if !run.dead {
                            run.step();
                        }
                    }
                    let again = rng.random_bool(0.7);
                    if !run.dead {
                        if again {
                            run.crash(h);
                        } else {
                            run.bounce(h);
                        }
                    }
                    for _ in 0..rng.random_range(0..=2) {
                        if !run.dead {
                            run.step();
                        }
                    }
                    if !run.dead {
                        run.bounce(h);
                    }
                } else if x < 45 && !hosts.is_empty() {
                    let h = hosts[rng.random_range(0..hosts.len())];
                    run.bounce(h);
                } else if x < 60 && mode != "clock" {
                    run.run();
                } else {
                    run.step();
                }
            }
            all.extend(postprocess(rec::take()));
        }
    });
    util::write_ndjson(&out, &all);
    println!("runs={runs} events={} calls={ncalls}", all.len());
}

// ===========================================================================
// C04: crash / bounce under protocol workloads (specs/simrun/SimCrash*.tla)
//
//   crash replay in=<behaviours.ndjson> out=<summary.json> traces=<dir> tick= lat= cap=
//       every line is one TLC-generated behaviour of SimCrashGen: per step the
//       operations each host starts, and crash / bounce calls between steps.
//       The same behaviour is executed a second time without the crash / bounce
//       calls (the twin) and the logs of the two uninvolved hosts are compared.
//   crash random seed= runs= tick= lat= cap= out=<trace.ndjson>
//
// Hosts: h1 listens / accepts, h2 connects (the protocol pair of the spec),
// h3 / h4 talk only to each other (UDP echo + one TCP stream).

mod c04 {
    use super::*;
    use std::collections::{BTreeMap, VecDeque};
    use std::future::Future;
    use std::net::{IpAddr, Ipv4Addr, Ipv6Addr};
    use std::rc::Rc;
    use tokio::io::{AsyncReadExt, AsyncWriteExt};
    use tokio::sync::Notify;
    use turmoil::net::tcp::{OwnedReadHalf, OwnedWriteHalf};
    use turmoil::net::{TcpListener, TcpStream, UdpSocket};

    const TCP_PORT: u16 = 80;
    const UDP_PORT: u16 = 90;
    const EPH0: u16 = 49152;

    thread_local! {
        static SENT: RefCell<Vec<u64>> = const { RefCell::new(Vec::new()) };
        static GMADE: RefCell<Vec<u64>> = const { RefCell::new(Vec::new()) };
        static GDROP: RefCell<Vec<u64>> = const { RefCell::new(Vec::new()) };
        static FACT: RefCell<Vec<u64>> = const { RefCell::new(Vec::new()) };
        static TWINLOG: RefCell<Vec<String>> = const { RefCell::new(Vec::new()) };
    }

    fn hname(h: usize) -> String {
        format!("h{h}")
    }

    thread_local! {
        /// the simulation runs with IPv6 addresses (sockets bind `::`, groups are joined with
        /// join_multicast_v6)
        static V6: std::cell::Cell<bool> = const { std::cell::Cell::new(false) };
    }
    fn v6() -> bool {
        V6.with(|v| v.get())
    }
    fn any_addr() -> IpAddr {
        if v6() {
            IpAddr::V6(Ipv6Addr::UNSPECIFIED)
        } else {
            IpAddr::V4(Ipv4Addr::UNSPECIFIED)
        }
    }
    fn group_addr() -> IpAddr {
        if v6() {
            IpAddr::V6("ff08::1".parse().unwrap())
        } else {
            IpAddr::V4(Ipv4Addr::new(239, 1, 1, 1))
        }
    }
    fn join_group(u: &UdpSocket) -> std::io::Result<()> {
        match group_addr() {
            IpAddr::V4(g) => u.join_multicast_v4(g, Ipv4Addr::UNSPECIFIED),
            IpAddr::V6(g) => u.join_multicast_v6(&g, 0),
        }
    }

    /// drop guard attributed to host h
    struct Guard(usize);
    impl Guard {
        fn new(h: usize) -> Guard {
            GMADE.with(|g| g.borrow_mut()[h] += 1);
            Guard(h)
        }
    }
    impl Drop for Guard {
        fn drop(&mut self) {
            GDROP.with(|g| g.borrow_mut()[self.0] += 1);
        }
    }

    #[derive(Clone, Debug)]
    pub struct Cmd {
        pub op: String,
        pub id: u64,
        pub c: u64,
    }

    #[derive(Default)]
    pub struct Shared {
        pub cmds: Vec<VecDeque<Cmd>>, // index = host
    }

    type Cell<T> = Rc<RefCell<Option<T>>>;

    /// Streams are split; the two halves live in separate cells.  Fields are dropped in
    /// declaration order, so the write halves in `wr_first` are closed before the read half of the
    /// same stream and those in `wr` after it: both destructor orders occur when a host is torn down.
    #[derive(Default)]
    struct Slots {
        listener: Option<Rc<TcpListener>>,
        udp: Option<Rc<UdpSocket>>,
        wr_first: BTreeMap<u64, Cell<OwnedWriteHalf>>,
        rd: BTreeMap<u64, Cell<OwnedReadHalf>>,
        wr: BTreeMap<u64, Cell<OwnedWriteHalf>>,
    }

    fn store(slots: &Rc<RefCell<Slots>>, c: u64, s: TcpStream, write_first: bool) {
        let (r, w) = s.into_split();
        let mut sl = slots.borrow_mut();
        sl.rd.insert(c, Rc::new(RefCell::new(Some(r))));
        if write_first {
            sl.wr_first.insert(c, Rc::new(RefCell::new(Some(w))));
        } else {
            sl.wr.insert(c, Rc::new(RefCell::new(Some(w))));
        }
    }

    fn res(h: usize, inc: u64, id: u64, r: &str, c: u64) {
        rec::emit(json!({"ev":"res","h":h,"inc":inc,"id":id,"res":r,"c":c}));
    }

    fn io_class(e: &std::io::Error) -> &'static str {
        use std::io::ErrorKind::*;
        match e.kind() {
            ConnectionRefused => "refused",
            ConnectionReset => "closed",
            AddrInUse => "inuse",
            _ => "err",
        }
    }

    async fn hb(h: usize) {
        let _g = Guard::new(h);
        loop {
            POLLS.with(|p| p.borrow_mut()[h] += 1);
            rec::emit(json!({"ev":"hb","h":h}));
            tokio::time::sleep(ms(1)).await;
        }
    }

    /// The protocol pair: a command interpreter.
    async fn puppet(h: usize, inc: u64, lis: usize, shared: Rc<RefCell<Shared>>, notify: Rc<Notify>) -> turmoil::Result {
        let _g = Guard::new(h);
        tokio::task::spawn_local(hb(h));
        let slots: Rc<RefCell<Slots>> = Rc::new(RefCell::new(Slots::default()));
        let other = hname(3 - h);
        let mut nbg = 0u64;
        loop {
            notify.notified().await;
            // datagrams handed to the program
            let udp = slots.borrow().udp.clone();
            if let Some(u) = &udp {
                let mut buf = [0u8; 8];
                while let Ok((n, _from)) = u.try_recv_from(&mut buf) {
                    if n >= 1 && buf[0] == 0xFF {
                        continue; // group traffic of the bystanders (same group and port), not ours
                    }
                    let d = if n >= 2 { ((buf[0] as u64) << 8) | buf[1] as u64 } else { 0 };
                    rec::emit(json!({"ev":"recv","h":h,"inc":inc,"d":d}));
                }
            }
            let cmds: Vec<Cmd> = shared.borrow_mut().cmds[h].drain(..).collect();
            for cmd in cmds {
                let (id, c) = (cmd.id, cmd.c);
                rec::emit(json!({"ev":"cmd_begin","h":h,"inc":inc,"op":cmd.op,"id":id,"c":c}));
                match cmd.op.as_str() {
                    "listen" => match TcpListener::bind((any_addr(), TCP_PORT)).await {
                        Ok(l) => {
                            slots.borrow_mut().listener = Some(Rc::new(l));
                            res(h, inc, id, "ok", 0);
                        }
                        Err(e) => res(h, inc, id, io_class(&e), 0),
                    },
                    "accept" => {
                        let l = slots.borrow().listener.clone();
                        let Some(l) = l else {
                            res(h, inc, id, "err", 0);
                            continue;
                        };
                        // accept() is polled once here: if a request is already queued the stream
                        // is returned at once (and may be used in this very turn), else a task waits
                        let mut fut = Box::pin(async move { l.accept().await });
                        let first = std::future::poll_fn(|cx| std::task::Poll::Ready(fut.as_mut().poll(cx))).await;
                        let done = {
                            let slots = slots.clone();
                            move |r: std::io::Result<(TcpStream, std::net::SocketAddr)>| match r {
                                Ok((s, peer)) => {
                                    // connections are identified by the connector's port: the connector
                                    // draws its ephemeral ports in connect order
                                    let c = (peer.port() - EPH0) as u64 + 1;
                                    store(&slots, c, s, (c + inc + h as u64) % 2 == 1);
                                    res(h, inc, id, "ok", c);
                                }
                                Err(e) => res(h, inc, id, io_class(&e), 0),
                            }
                        };
                        match first {
                            std::task::Poll::Ready(r) => done(r),
                            std::task::Poll::Pending => {
                                tokio::task::spawn_local(async move {
                                    let _g = Guard::new(h);
                                    done(fut.await);
                                });
                            }
                        }
                    }
                    "connect" => {
                        let slots = slots.clone();
                        tokio::task::spawn_local(async move {
                            let _g = Guard::new(h);
                            match TcpStream::connect((hname(lis), TCP_PORT)).await {
                                Ok(s) => {
                                    let port = s.local_addr().map(|a| a.port()).unwrap_or(0);
                                    let cc = (port.wrapping_sub(EPH0)) as u64 + 1;
                                    store(&slots, c, s, (c + inc + h as u64) % 2 == 1);
                                    res(h, inc, id, if cc == c { "ok" } else { "ok_port_mismatch" }, c);
                                }
                                Err(e) => res(h, inc, id, io_class(&e), c),
                            }
                        });
                    }
                    "read" => {
                        let cell = slots.borrow().rd.get(&c).cloned();
                        tokio::task::spawn_local(async move {
                            let _g = Guard::new(h);
                            let Some(cell) = cell else {
                                res(h, inc, id, "noslot", c);
                                return;
                            };
                            let half = cell.borrow_mut().take();
                            let Some(mut half) = half else {
                                res(h, inc, id, "busy", c);
                                return;
                            };
                            let mut b = [0u8; 1];
                            let r = half.read(&mut b).await;
                            *cell.borrow_mut() = Some(half);
                            match r {
                                Ok(0) => res(h, inc, id, "closed", c),
                                Ok(_) => res(h, inc, id, "data", c),
                                Err(e) => res(h, inc, id, io_class(&e), c),
                            }
                        });
                    }
                    "write" => {
                        let cell = {
                            let sl = slots.borrow();
                            sl.wr.get(&c).or_else(|| sl.wr_first.get(&c)).cloned()
                        };
                        tokio::task::spawn_local(async move {
                            let _g = Guard::new(h);
                            let Some(cell) = cell else {
                                res(h, inc, id, "noslot", c);
                                return;
                            };
                            let half = cell.borrow_mut().take();
                            let Some(mut half) = half else {
                                res(h, inc, id, "busy", c);
                                return;
                            };
                            let r = half.write_all(&[id as u8]).await;
                            *cell.borrow_mut() = Some(half);
                            match r {
                                Ok(()) => res(h, inc, id, "ok", c),
                                Err(_) => res(h, inc, id, "err", c),
                            }
                        });
                    }
                    "ubind" => match UdpSocket::bind((any_addr(), UDP_PORT)).await {
                        Ok(u) => {
                            let j = join_group(&u);
                            slots.borrow_mut().udp = Some(Rc::new(u));
                            res(h, inc, id, if j.is_ok() { "ok" } else { "err" }, 0);
                        }
                        Err(e) => res(h, inc, id, io_class(&e), 0),
                    },
                    "usend" => {
                        let u = slots.borrow().udp.clone();
                        if let Some(u) = u {
                            let d = c;
                            SENT.with(|s| s.borrow_mut()[h] += 1);
                            rec::emit(json!({"ev":"send","h":h,"inc":inc,"d":d,"id":id}));
                            let _ = u.send_to(&[(d >> 8) as u8, (d & 0xff) as u8], (other.clone(), UDP_PORT)).await;
                        } else {
                            res(h, inc, id, "noslot", 0);
                        }
                    }
                    "bg" => {
                        nbg += 1;
                        rec::emit(json!({"ev":"bg","h":h,"inc":inc,"id":id}));
                        if nbg % 2 == 0 {
                            let g = Guard::new(h);
                            tokio::spawn(async move {
                                let _g = g;
                                std::future::pending::<()>().await;
                            });
                        } else {
                            tokio::task::spawn_local(async move {
                                let _g = Guard::new(h);
                                std::future::pending::<()>().await;
                            });
                        }
                    }
                    _ => {}
                }
            }
        }
    }

    fn tlog(h: usize, what: String) {
        let at = whole_ms(turmoil::elapsed());
        let sim = turmoil::sim_elapsed().map(whole_ms).unwrap_or(-1);
        TWINLOG.with(|l| l.borrow_mut().push(format!("h{h} @{at}/{sim} {what}")));
    }

    /// h3: UDP echo + TCP echo server;  h4: the client side.  They never talk to h1 / h2.
    async fn bystander(h: usize, notify: Rc<Notify>) -> turmoil::Result {
        let udp = UdpSocket::bind((any_addr(), UDP_PORT)).await?;
        let mut buf = [0u8; 8];
        // h3 is a member of the same multicast group (address and port) as the sockets of
        // h1 / h2; h4 sends to the group in every step.  A crash of h1 / h2 must not cost h3
        // its membership.
        let group = group_addr();
        if h == 3 {
            join_group(&udp)?;
            let l = TcpListener::bind((any_addr(), TCP_PORT)).await?;
            tokio::task::spawn_local(async move {
                let Ok((mut s, peer)) = l.accept().await else { return };
                tlog(3, format!("accepted {peer}"));
                let mut b = [0u8; 1];
                loop {
                    match s.read(&mut b).await {
                        Ok(1) => {
                            tlog(3, format!("tcp byte {}", b[0]));
                            if s.write_all(&b).await.is_err() {
                                tlog(3, "tcp write failed".into());
                                return;
                            }
                        }
                        other => {
                            tlog(3, format!("tcp read {other:?}"));
                            return;
                        }
                    }
                }
            });
            loop {
                notify.notified().await;
                while let Ok((n, from)) = udp.try_recv_from(&mut buf) {
                    tlog(3, format!("udp {:?} from {from}", &buf[..n]));
                    let _ = udp.send_to(&buf[..n], from).await;
                }
            }
        } else {
            let stream: Rc<RefCell<Option<OwnedWriteHalf>>> = Rc::new(RefCell::new(None));
            let st = stream.clone();
            tokio::task::spawn_local(async move {
                match TcpStream::connect((hname(3), TCP_PORT)).await {
                    Ok(s) => {
                        tlog(4, format!("connected {:?}", s.local_addr().ok()));
                        let (mut r, w) = s.into_split();
                        *st.borrow_mut() = Some(w);
                        let mut b = [0u8; 1];
                        loop {
                            match r.read(&mut b).await {
                                Ok(1) => tlog(4, format!("tcp echo {}", b[0])),
                                other => {
                                    tlog(4, format!("tcp read {other:?}"));
                                    return;
                                }
                            }
                        }
                    }
                    Err(e) => tlog(4, format!("connect failed {:?}", e.kind())),
                }
            });
            let mut k = 0u8;
            loop {
                notify.notified().await;
                while let Ok((n, from)) = udp.try_recv_from(&mut buf) {
                    tlog(4, format!("udp echo {:?} from {from}", &buf[..n]));
                }
                k = k.wrapping_add(1);
                let _ = udp.send_to(&[k], (hname(3), UDP_PORT)).await;
                let _ = udp.send_to(&[0xFF, k], (group, UDP_PORT)).await;
                let w = stream.borrow_mut().take();
                if let Some(mut w) = w {
                    let r = w.write_all(&[k]).await;
                    tlog(4, format!("tcp wrote {k} {:?}", r.is_ok()));
                    *stream.borrow_mut() = Some(w);
                }
            }
        }
    }

    pub struct CCfg {
        pub tick: u64,
        pub lat_steps: u64,
        pub cap: usize,
        pub lis: usize,
        pub v6: bool,
        pub eph: u64, // size of the ephemeral port range, 0 = default
    }

    pub struct CRun<'a> {
        pub sim: turmoil::Sim<'a>,
        pub shared: Rc<RefCell<Shared>>,
        notifies: Vec<Rc<Notify>>,
        pub dead: bool, // a step panicked: the scenario is over
    }

    fn vec2(v: &[u64]) -> Vec<u64> {
        vec![v[1], v[2]]
    }
    fn polls2() -> Vec<u64> {
        POLLS.with(|p| vec2(&p.borrow()))
    }
    fn sent2() -> Vec<u64> {
        SENT.with(|p| vec2(&p.borrow()))
    }

    impl<'a> CRun<'a> {
        pub fn new(cfg: &CCfg) -> CRun<'a> {
            let mut b = turmoil::Builder::new();
            V6.with(|v| v.set(cfg.v6));
            if cfg.eph > 0 {
                b.ephemeral_ports(EPH0..=EPH0 + (cfg.eph as u16 - 1));
            }
            if cfg.v6 {
                b.ip_version(turmoil::IpVersion::V6);
            }
            b.tick_duration(ms(cfg.tick))
                .min_message_latency(ms(cfg.tick * cfg.lat_steps))
                .max_message_latency(ms(cfg.tick * cfg.lat_steps))
                .tcp_capacity(cfg.cap)
                .fail_rate(0.0)
                .rng_seed(7)
                .simulation_duration(Duration::from_secs(3600));
            let mut sim = b.build();
            for v in [&POLLS, &SENT, &GMADE, &GDROP, &FACT] {
                v.with(|x| *x.borrow_mut() = vec![0; 5]);
            }
            TWINLOG.with(|l| l.borrow_mut().clear());
            let shared = Rc::new(RefCell::new(Shared { cmds: (0..5).map(|_| VecDeque::new()).collect() }));
            let mut notifies = vec![Rc::new(Notify::new())];
            let lis = cfg.lis;
            for h in 1..=4usize {
                let nt = Rc::new(Notify::new());
                notifies.push(nt.clone());
                let sh = shared.clone();
                if h <= 2 {
                    sim.host(hname(h), move || {
                        let inc = FACT.with(|f| {
                            f.borrow_mut()[h] += 1;
                            f.borrow()[h]
                        });
                        puppet(h, inc, lis, sh.clone(), nt.clone())
                    });
                } else {
                    sim.host(hname(h), move || bystander(h, nt.clone()));
                }
            }
            rec::take();
            rec::emit(json!({"ev":"reset","tick":cfg.tick,"lat":cfg.lat_steps,"cap":cfg.cap,"lis":cfg.lis,"ip": if cfg.v6 { 6 } else { 4 }}));
            CRun { sim, shared, notifies, dead: false }
        }

        pub fn step(&mut self, per_host: Vec<Vec<Cmd>>) {
            for (h, cmds) in per_host.into_iter().enumerate() {
                if h == 0 || h > 2 {
                    continue;
                }
                self.shared.borrow_mut().cmds[h] = cmds.into();
            }
            for h in 1..=4 {
                self.notifies[h].notify_one();
            }
            rec::emit(json!({"ev":"step"}));
            let sim = &mut self.sim;
            // like util::catch, but every panic message raised on the way is kept: a panic inside host
            // code surfaces from Sim::step as the runtime's generic "a spawned task panicked ..." message
            thread_local! {
                static PANICS: RefCell<Vec<String>> = const { RefCell::new(Vec::new()) };
            }
            PANICS.with(|p| p.borrow_mut().clear());
            let prev = std::panic::take_hook();
            std::panic::set_hook(Box::new(|info| {
                let msg = info
                    .payload()
                    .downcast_ref::<&str>()
                    .map(|s| s.to_string())
                    .or_else(|| info.payload().downcast_ref::<String>().cloned())
                    .unwrap_or_else(|| "panic".to_string());
                PANICS.with(|p| p.borrow_mut().push(msg));
            }));
            let r = std::panic::catch_unwind(std::panic::AssertUnwindSafe(|| sim.step()));
            std::panic::set_hook(prev);
            let ok = match &r {
                Ok(Ok(_)) => "ok".to_string(),
                Ok(Err(e)) => format!("err {e}"),
                Err(_) => format!("panic {}", PANICS.with(|p| p.borrow().join(" | "))),
            };
            if ok != "ok" {
                TWINLOG.with(|l| l.borrow_mut().push(format!("step failed: {ok}")));
                self.dead = true;
            }
            let okc = if ok == "ok" {
                "ok"
            } else if ok.contains("ports exhausted") {
                "ports"
            } else {
                "other"
            };
            rec::emit(json!({"ev":"step_end","polls":polls2(),"sent":sent2(),"ok":ok,"okc":okc}));
        }

        /// Sim::set_link_latency on the link of the protocol pair (v steps)
        pub fn set_lat(&mut self, v: u64, tick: u64) {
            self.sim.set_link_latency(hname(1), hname(2), ms(v * tick));
            rec::emit(json!({"ev":"setlat","v":v}));
        }

        fn tables(&self, h: usize) -> Value {
            let t = self.sim.verif_host_tables(hname(h));
            json!({"udp": t.udp_binds.len(), "tcp": t.tcp_binds.len(), "mcast": t.multicast_memberships,
                   "streams": t.tcp_streams.len()})
        }

        /// crash the hosts in `hs` with one call (a regex when there are several)
        pub fn crash(&mut self, hs: &[usize]) {
            if hs.len() == 1 {
                self.sim.crash(hname(hs[0]));
            } else {
                self.sim.crash(regex::Regex::new("^h[12]$").unwrap());
            }
            for &h in hs {
                let glive = GMADE.with(|g| g.borrow()[h]) - GDROP.with(|g| g.borrow()[h]);
                let mut obs = self.tables(h);
                obs["polls"] = json!(polls2());
                obs["sent"] = json!(sent2());
                obs["glive"] = json!(glive);
                obs["running"] = json!(self.sim.is_host_running(hname(h)));
                rec::emit(json!({"ev":"crash","h":h,"obs":obs}));
            }
        }

        pub fn bounce(&mut self, hs: &[usize]) {
            let before: Vec<u64> = FACT.with(|f| f.borrow().clone());
            if hs.len() == 1 {
                self.sim.bounce(hname(hs[0]));
            } else {
                self.sim.bounce(regex::Regex::new("^h[12]$").unwrap());
            }
            for &h in hs {
                let fact = FACT.with(|f| f.borrow()[h]) - before[h];
                let obs = json!({"polls": polls2(), "sent": sent2(), "fact": fact,
                    "running": self.sim.is_host_running(hname(h))});
                rec::emit(json!({"ev":"bounce","h":h,"obs":obs,"streams":self.tables(h)["streams"]}));
            }
        }

        pub fn twin_log(&self) -> Vec<String> {
            TWINLOG.with(|l| l.borrow().clone())
        }
    }

    /// Raw stream -> model-level events.  Purely syntactic: within a step the events of a
    /// host form its turn; operations that were started in an earlier step and return now
    /// are listed in the `turn` event (they are the tasks woken by the deliveries at the
    /// start of the turn), operations started now carry their immediate result in `cmd`.
    pub fn postprocess(raw: Vec<Value>) -> Vec<Value> {
        let mut out: Vec<Value> = Vec::new();
        let mut i = 0;
        let mut started: BTreeMap<u64, u64> = BTreeMap::new(); // op id -> step index it was started in
        let mut kinds: BTreeMap<u64, String> = BTreeMap::new(); // op id -> operation
        let mut stepno = 0u64;
        while i < raw.len() {
            let e = &raw[i];
            let ev = e["ev"].as_str().unwrap_or("");
            if ev != "step" {
                if ev != "t" && ev != "hb" {
                    out.push(e.clone());
                }
                i += 1;
                continue;
            }
            stepno += 1;
            out.push(json!({"ev":"step"}));
            // collect the events of this step
            let mut j = i + 1;
            let mut order: Vec<u64> = Vec::new();
            let mut per: BTreeMap<u64, Vec<Value>> = BTreeMap::new();
            while j < raw.len() && raw[j]["ev"] != "step_end" {
                let x = &raw[j];
                let xe = x["ev"].as_str().unwrap_or("");
                if matches!(xe, "hb" | "recv" | "cmd_begin" | "res" | "send" | "bg") {
                    let h = x["h"].as_u64().unwrap();
                    if h <= 2 {
                        if !order.contains(&h) {
                            order.push(h);
                        }
                        per.entry(h).or_default().push(x.clone());
                    }
                }
                j += 1;
            }
            for h in order {
                let evs = per.remove(&h).unwrap_or_default();
                let mut got: Vec<u64> = Vec::new();
                let mut woken: Vec<(u64, String, u64)> = Vec::new();
                let mut cmds: Vec<Value> = Vec::new();
                let mut inc = 0u64;
                for x in &evs {
                    match x["ev"].as_str().unwrap() {
                        "recv" => {
                            got.push(x["d"].as_u64().unwrap());
                            inc = x["inc"].as_u64().unwrap();
                        }
                        "cmd_begin" => {
                            let id = x["id"].as_u64().unwrap();
                            started.insert(id, stepno);
                            kinds.insert(id, x["op"].as_str().unwrap().to_string());
                            inc = x["inc"].as_u64().unwrap();
                            cmds.push(json!({"ev":"cmd","h":h,"inc":x["inc"],"op":x["op"],"id":id,
                                "c":x["c"],"res":""}));
                        }
                        "res" => {
                            let id = x["id"].as_u64().unwrap();
                            inc = x["inc"].as_u64().unwrap();
                            let r = x["res"].as_str().unwrap().to_string();
                            if started.get(&id) == Some(&stepno) {
                                for c in cmds.iter_mut() {
                                    if c["id"] == id {
                                        c["res"] = json!(r);
                                        if c["op"] == "accept" {
                                            c["c"] = x["c"].clone();
                                        }
                                    }
                                }
                            } else {
                                woken.push((id, r, x["c"].as_u64().unwrap_or(0)));
                            }
                        }
                        "send" => {
                            for c in cmds.iter_mut() {
                                if c["id"] == x["id"] {
                                    c["res"] = json!("ok");
                                }
                            }
                        }
                        "bg" => {
                            for c in cmds.iter_mut() {
                                if c["id"] == x["id"] {
                                    c["res"] = json!("ok");
                                }
                            }
                        }
                        _ => {}
                    }
                }
                woken.sort();
                got.sort();
                let resv: Vec<Value> = woken.iter().map(|(id, r, _)| json!([id, r])).collect();
                let acc: Vec<Value> = woken
                    .iter()
                    .filter(|(id, r, c)| r == "ok" && *c != 0 && kinds.get(id).map(|k| k == "accept").unwrap_or(false))
                    .map(|(id, _, c)| json!([id, c]))
                    .collect();
                out.push(json!({"ev":"turn","h":h,"inc":inc,"got":got,"res":resv,"acc":acc}));
                out.extend(cmds);
                out.push(json!({"ev":"turn_end","h":h}));
            }
            if j < raw.len() {
                out.push(raw[j].clone());
            }
            i = j + 1;
        }
        out
    }

    /// canonical form for the comparison with the TLC prediction
    pub fn canon(events: &[Value]) -> Vec<Value> {
        let cl = |r: &Value| -> Value {
            // end-of-file and reset are one class ("closed") already; nothing else to fold
            r.clone()
        };
        events
            .iter()
            .filter_map(|e| match e["ev"].as_str().unwrap_or("") {
                "step" => Some(json!({"ev":"step"})),
                "turn" => {
                    let mut res: Vec<Value> = e["res"].as_array().cloned().unwrap_or_default();
                    res.sort_by_key(|r| r[0].as_u64().unwrap_or(0));
                    let mut got: Vec<u64> = e["got"].as_array().map(|a| a.iter().map(|x| x.as_u64().unwrap()).collect()).unwrap_or_default();
                    got.sort();
                    Some(json!({"ev":"turn","h":e["h"],"got":got,"res":res.iter().map(cl).collect::<Vec<_>>()}))
                }
                "cmd" => Some(json!({"ev":"cmd","h":e["h"],"op":e["op"],"id":e["id"],"res":e["res"],
                    "c": if e["op"] == "accept" || e["op"] == "usend" || e["op"] == "bg" || e["op"] == "listen" || e["op"] == "ubind" { json!(0) } else { e["c"].clone() }})),
                "step_end" => Some(json!({"ev":"step_end","polls":e["polls"],"sent":e["sent"]})),
                "setlat" => Some(json!({"ev":"setlat","v":e["v"]})),
                "crash" => Some(json!({"ev":"crash","h":e["h"],"obs":e["obs"]})),
                "bounce" => Some(json!({"ev":"bounce","h":e["h"],"obs":e["obs"]})),
                _ => None,
            })
            .collect()
    }

    pub fn predicted(beh: &[Value]) -> Vec<Value> {
        beh.iter()
            .map(|a| {
                let mut e = a.clone();
                let name = a["a"].as_str().unwrap();
                e["ev"] = json!(if name == "step_begin" { "step" } else { name });
                e
            })
            .collect()
    }

    /// Execute one behaviour; with_faults = false gives the twin.
    pub fn execute(beh: &[Value], cfg: &CCfg, with_faults: bool) -> (Vec<Value>, Vec<String>, bool) {
        let mut run = CRun::new(cfg);
        let mut i = 0;
        let mut faults = false;
        while i < beh.len() && !run.dead {
            let a = &beh[i];
            match a["a"].as_str().unwrap() {
                "crash" | "bounce" => {
                    faults = true;
                    let kind = a["a"].as_str().unwrap().to_string();
                    let mut hs = vec![a["h"].as_u64().unwrap() as usize];
                    // two adjacent calls of the same kind on hosts 1 and 2 = one call with a regex
                    if i + 1 < beh.len() && beh[i + 1]["a"] == kind.as_str() && hs[0] == 1 && beh[i + 1]["h"] == 2 {
                        hs.push(2);
                        i += 1;
                    }
                    if with_faults {
                        if kind == "crash" {
                            run.crash(&hs)
                        } else {
                            run.bounce(&hs)
                        }
                    }
                    i += 1;
                }
                "setlat" => {
                    run.set_lat(a["v"].as_u64().unwrap(), cfg.tick);
                    i += 1;
                }
                "step_begin" => {
                    let mut per: Vec<Vec<Cmd>> = vec![Vec::new(); 5];
                    let mut j = i + 1;
                    while j < beh.len() && beh[j]["a"] != "step_end" {
                        let b = &beh[j];
                        if b["a"] == "cmd" {
                            per[b["h"].as_u64().unwrap() as usize].push(Cmd {
                                op: b["op"].as_str().unwrap().to_string(),
                                id: b["id"].as_u64().unwrap(),
                                c: b["c"].as_u64().unwrap(),
                            });
                        }
                        j += 1;
                    }
                    run.step(per);
                    i = j + 1;
                }
                _ => i += 1,
            }
        }
        let log = run.twin_log();
        (rec::take(), log, faults)
    }

    pub fn replay_one(beh: &[Value], cfg: &CCfg) -> ReplayOut {
        let (raw, log, faults) = execute(beh, cfg, true);
        let mut trace = postprocess(raw);
        let (_, twin, _) = execute(beh, cfg, false);
        rec::take();
        let equal = log == twin;
        let mut tw = json!({"ev":"twin","equal":equal});
        if !equal {
            let k = log.iter().zip(twin.iter()).position(|(a, b)| a != b).unwrap_or(log.len().min(twin.len()));
            tw["first_diff"] = json!({"index":k,"run":log.get(k).cloned().unwrap_or_default(),
                "twin":twin.get(k).cloned().unwrap_or_default()});
        }
        trace.push(tw);
        let want = canon(&predicted(beh));
        let got = canon(&trace);
        let mut divergence = None;
        if want != got {
            let k = want.iter().zip(got.iter()).position(|(a, b)| a != b).unwrap_or(want.len().min(got.len()));
            divergence = Some(json!({"what":"observation","index":k,
                "want": want.get(k).cloned().unwrap_or(json!(null)),
                "got": got.get(k).cloned().unwrap_or(json!(null))}));
            // second pass for the judge: the same behaviour followed by quiet steps, so that every
            // deadline of the PropSpec (latency windows) lies inside the recorded trace
            let mut long: Vec<Value> = beh.to_vec();
            for _ in 0..12 {
                long.push(json!({"a":"step_begin"}));
                long.push(json!({"a":"step_end"}));
            }
            let (raw2, log2, _) = execute(&long, cfg, true);
            let mut t2 = postprocess(raw2);
            let (_, twin2, _) = execute(&long, cfg, false);
            rec::take();
            t2.push(json!({"ev":"twin","equal":log2 == twin2}));
            trace = t2;
        } else if !equal {
            divergence = Some(json!({"what":"twin","detail":trace.last()}));
        }
        let observed = trace.iter().any(|e| {
            e["ev"] == "turn"
                && (e["res"].as_array().map(|a| !a.is_empty()).unwrap_or(false)
                    || e["got"].as_array().map(|a| !a.is_empty()).unwrap_or(false))
        });
        ReplayOut { divergence, trace, nontrivial: faults && observed }
    }

    fn ccfg(args: &[String]) -> CCfg {
        CCfg {
            tick: util::arg_u64(args, "tick", 2),
            lat_steps: util::arg_u64(args, "lat", 1),
            cap: util::arg_u64(args, "cap", 1) as usize,
            lis: util::arg_u64(args, "lis", 1) as usize,
            v6: util::arg_u64(args, "ip", 4) == 6,
            eph: util::arg_u64(args, "eph", 0),
        }
    }

    pub fn main_replay(args: &[String]) {
        let inp = util::arg(args, "in").expect("in=");
        let out = util::arg(args, "out").expect("out=");
        let traces = util::arg(args, "traces");
        let keep = util::arg(args, "keep");
        let keepn = util::arg_u64(args, "keepn", 200);
        let cfg = ccfg(args);
        let text = std::fs::read_to_string(&inp).expect("read behaviours");
        let mut total = 0u64;
        let mut nontrivial = 0u64;
        let mut ndiv = 0u64;
        let mut divs: Vec<Value> = Vec::new();
        let mut kinds: BTreeMap<String, u32> = BTreeMap::new();
        let mut samples: Vec<Value> = Vec::new();
        let mut all: Vec<Value> = Vec::new();
        rec::with_recorder(|| {
            for (k, line) in text.lines().enumerate() {
                if line.trim().is_empty() {
                    continue;
                }
                let beh: Vec<Value> = serde_json::from_str(line).expect("behaviour json");
                let r = match util::catch(|| replay_one(&beh, &cfg)) {
                    Ok(r) => r,
                    Err(p) => ReplayOut {
                        divergence: Some(json!({"what":"panic","msg":p})),
                        trace: vec![],
                        nontrivial: false,
                    },
                };
                total += 1;
                if r.nontrivial {
                    nontrivial += 1;
                }
                if samples.len() < 2 && r.nontrivial && r.trace.len() > 12 {
                    samples.push(json!({"behaviour": beh, "trace_excerpt": r.trace.iter().take(14).collect::<Vec<_>>()}));
                }
                if keep.is_some() && total <= keepn {
                    all.extend(r.trace.iter().cloned());
                }
                if let Some(mut d) = r.divergence {
                    ndiv += 1;
                    // keep a few divergences of every kind (expected / observed), not just the first ones
                    let key = format!("{}/{}/{}/{}", d["want"]["ev"], d["want"]["res"], d["got"]["ev"], d["got"]["res"]);
                    let seen = kinds.entry(key).or_insert(0u32);
                    *seen += 1;
                    if *seen <= 4 && divs.len() < 48 {
                        d["line"] = json!(k);
                        d["behaviour"] = json!(beh);
                        if let Some(dir) = &traces {
                            let p = format!("{dir}/div-{}.ndjson", divs.len());
                            util::write_ndjson(&p, &r.trace);
                            d["trace"] = json!(p);
                        }
                        divs.push(d);
                    }
                }
            }
        });
        if let Some(k) = keep {
            util::write_ndjson(&k, &all);
        }
        let summary = json!({"behaviours": total, "nontrivial": nontrivial, "divergent": ndiv,
            "divergences": divs, "samples": samples});
        std::fs::write(&out, serde_json::to_string(&summary).unwrap()).unwrap();
        println!("replayed={total} nontrivial={nontrivial} divergent={ndiv}");
    }

    pub fn main(args: &[String]) {
        match args.first().map(|s| s.as_str()) {
            Some("replay") => main_replay(&args[1..]),
            Some("random") => main_random(&args[1..]),
            _ => {
                eprintln!("usage: simrun crash replay|random key=value...");
                std::process::exit(2);
            }
        }
    }

    /// Seeded random workloads with sampled crash points (long runs, both hosts may be
    /// crashed, regex selection).  The driver watches the results as they come in and only
    /// starts operations that make sense (a read on a stream the host holds since an
    /// earlier step, one accept at a time, ...), i.e. it stays inside the alphabet of the spec.
    pub fn main_random(args: &[String]) {
        let seed = util::arg_u64(args, "seed", 1);
        let runs = util::arg_u64(args, "runs", 20);
        let steps = util::arg_u64(args, "steps", 14);
        let out = util::arg(args, "out").expect("out=");
        let cfg = ccfg(args);
        let mut rng = SmallRng::seed_from_u64(seed ^ 0x63726173);
        let mut all: Vec<Value> = Vec::new();
        let mut nfault = 0u64;
        let mut nops = 0u64;
        #[derive(Default, Clone)]
        struct Mirror {
            up: bool,
            listening: bool,      // listen returned ok in an earlier step
            udp: bool,            // ubind returned ok
            held: Vec<u64>,       // connections usable from the next step on
            fresh: Vec<u64>,      // handed over in this step
            pend: Vec<(String, u64, u64)>, // (kind, id, c) started, not returned
        }
        rec::with_recorder(|| {
            for _ in 0..runs {
                let mut run = CRun::new(&cfg);
                let mut raw: Vec<Value> = rec::take();
                let mut script: Vec<Value> = Vec::new();
                let mut id = 0u64;
                let mut nconn = 0u64;
                let mut ndg = 0u64;
                let mut m: Vec<Mirror> = vec![Mirror::default(); 3];
                let mut cur_lat = cfg.lat_steps;
                m[1].up = true;
                m[2].up = true;
                for _s in 0..steps {
                    if run.dead {
                        break;
                    }
                    if rng.random_bool(0.22) {
                        let both = rng.random_bool(0.2);
                        let kind = if rng.random_bool(0.5) { "crash" } else { "bounce" };
                        let hs: Vec<usize> = if both { vec![1, 2] } else { vec![rng.random_range(1..=2)] };
                        for &h in &hs {
                            script.push(json!({"a":kind,"h":h}));
                            m[h] = Mirror { up: kind == "bounce", ..Default::default() };
                        }
                        if kind == "crash" {
                            run.crash(&hs)
                        } else {
                            run.bounce(&hs)
                        }
                        nfault += 1;
                    }
                    if rng.random_bool(0.12) {
                        let v = rng.random_range(1..=4u64);
                        if v != cur_lat {
                            cur_lat = v;
                            script.push(json!({"a":"setlat","v":v}));
                            run.set_lat(v, cfg.tick);
                        }
                    }
                    script.push(json!({"a":"step_begin"}));
                    let mut per: Vec<Vec<Cmd>> = vec![Vec::new(); 5];
                    for h in 1..=2usize {
                        if !m[h].up {
                            continue;
                        }
                        for _ in 0..rng.random_range(0..=2) {
                            let x = rng.random_range(0..100);
                            let busy = |k: &str, c: u64| m[h].pend.iter().any(|p| p.0 == k && (c == 0 || p.2 == c));
                            let pick = if m[h].held.is_empty() { 0 } else { m[h].held[rng.random_range(0..m[h].held.len())] };
                            let choice: Option<(&str, u64)> = if h == cfg.lis && !m[h].listening && !busy("listen", 0) && x < 50 {
                                Some(("listen", 0))
                            } else if h == cfg.lis && m[h].listening && !busy("accept", 0) && x < 35 {
                                Some(("accept", 0))
                            } else if h != cfg.lis && x < 30 && nconn < 6 {
                                nconn += 1;
                                Some(("connect", nconn))
                            } else if x < 50 && pick != 0 && !busy("read", pick) {
                                Some(("read", pick))
                            } else if x < 70 && pick != 0 && !busy("write", pick) {
                                Some(("write", pick))
                            } else if x < 80 && !m[h].udp && !busy("ubind", 0) {
                                Some(("ubind", 0))
                            } else if x < 92 && m[h].udp {
                                ndg += 1;
                                Some(("usend", ndg))
                            } else if x >= 92 {
                                Some(("bg", 0))
                            } else {
                                None
                            };
                            if let Some((op, c)) = choice {
                                id += 1;
                                nops += 1;
                                script.push(json!({"a":"cmd","h":h,"op":op,"id":id,"c":c}));
                                per[h].push(Cmd { op: op.to_string(), id, c });
                                m[h].pend.push((op.to_string(), id, c));
                            }
                        }
                    }
                    script.push(json!({"a":"step_end"}));
                    run.step(per);
                    let new = rec::take();
                    for h in 1..=2usize {
                        let fresh = std::mem::take(&mut m[h].fresh);
                        m[h].held.extend(fresh);
                    }
                    for e in &new {
                        if e["ev"] == "res" {
                            let h = e["h"].as_u64().unwrap() as usize;
                            let rid = e["id"].as_u64().unwrap();
                            let r = e["res"].as_str().unwrap();
                            if let Some(k) = m[h].pend.iter().position(|p| p.1 == rid) {
                                let (kind, _, _) = m[h].pend.remove(k);
                                match (kind.as_str(), r) {
                                    ("listen", "ok") => m[h].listening = true,
                                    ("ubind", "ok") => m[h].udp = true,
                                    ("connect", "ok") | ("accept", "ok") => m[h].fresh.push(e["c"].as_u64().unwrap()),
                                    _ => {}
                                }
                            }
                        }
                    }
                    // send / bg return at once
                    for h in 1..=2usize {
                        m[h].pend.retain(|p| p.0 != "usend" && p.0 != "bg");
                    }
                    // a listener / socket bound in this step is usable from the next one:
                    // `listening` / `udp` were set above, after the commands of this step
                    raw.extend(new);
                }
                let log = run.twin_log();
                drop(run);
                let mut trace = postprocess(raw);
                let (_, twin, _) = execute(&script, &cfg, false);
                rec::take();
                let equal = log == twin;
                let mut tw = json!({"ev":"twin","equal":equal});
                if !equal {
                    let k = log.iter().zip(twin.iter()).position(|(a, b)| a != b).unwrap_or(log.len().min(twin.len()));
                    tw["first_diff"] = json!({"index":k,"run":log.get(k).cloned().unwrap_or_default(),
                        "twin":twin.get(k).cloned().unwrap_or_default()});
                }
                trace.push(tw);
                all.extend(trace);
            }
        });
        util::write_ndjson(&out, &all);
        println!("runs={runs} events={} faults={nfault} ops={nops}", all.len());
    }
}

fn main() {
    let args: Vec<String> = std::env::args().skip(1).collect();
    match args.first().map(|s| s.as_str()) {
        Some("replay") => main_replay(&args[1..]),
        Some("random") => main_random(&args[1..]),
        Some("crash") => c04::main(&args[1..]),
        _ => {
            eprintln!("usage: simrun replay|random|crash key=value...");
            std::process::exit(2);
        }
    }
}
