use std::cell::RefCell;
use std::rc::Rc;
use std::time::Duration;
use tokio::io::{AsyncReadExt, AsyncWriteExt};
use vh::util;

fn ms(k: u64) -> Duration {
    Duration::from_millis(k)
}

fn probe() {
    // 1. boundary
    {
        let mut sim = turmoil::Builder::new().tick_duration(ms(2)).simulation_duration(ms(100)).build();
        let log = Rc::new(RefCell::new(Vec::<String>::new()));
        let l = log.clone();
        sim.client("c", async move {
            l.borrow_mut().push(format!("start {:?}", turmoil::elapsed()));
            tokio::time::sleep(ms(4)).await;
            l.borrow_mut().push(format!("fin {:?}", turmoil::elapsed()));
            Ok(())
        });
        let l = log.clone();
        sim.host("h", move || {
            let l = l.clone();
            async move {
                let mut n = 0;
                loop {
                    l.borrow_mut().push(format!("hb {} {:?}", n, turmoil::elapsed()));
                    n += 1;
                    tokio::time::sleep(ms(1)).await;
                }
            }
        });
        for i in 0..4 {
            let r = sim.step();
            println!("step {} -> {:?} elapsed {:?} log {:?}", i + 1, r.map_err(|e| e.to_string()), sim.elapsed(), log.borrow_mut().drain(..).collect::<Vec<_>>());
        }
    }
    // 2. panics
    for mode in 0..3 {
        let r = util::catch(|| {
            let mut sim = turmoil::Builder::new().tick_duration(ms(2)).build();
            sim.client("c", async move {
                match mode {
                    0 => panic!("main panic"),
                    1 => {
                        tokio::task::spawn_local(async { panic!("local panic") });
                    }
                    _ => {
                        tokio::spawn(async { panic!("rt panic") });
                    }
                }
                tokio::time::sleep(ms(10)).await;
                Ok(())
            });
            sim.run().map_err(|e| e.to_string())
        });
        println!("panic mode {mode}: {:?}", r);
    }
    // 3. Err + later nodes unticked
    {
        let mut sim = turmoil::Builder::new().tick_duration(ms(2)).build();
        let log = Rc::new(RefCell::new(Vec::<String>::new()));
        let l = log.clone();
        sim.host("a", move || {
            let l = l.clone();
            async move {
                loop {
                    l.borrow_mut().push(format!("a {:?} {:?}", turmoil::elapsed(), turmoil::sim_elapsed()));
                    tokio::time::sleep(ms(2)).await;
                }
            }
        });
        sim.client("c", async move {
            tokio::time::sleep(ms(2)).await;
            Err("boom")?
        });
        let l = log.clone();
        sim.host("b", move || {
            let l = l.clone();
            async move {
                loop {
                    l.borrow_mut().push(format!("b {:?} {:?}", turmoil::elapsed(), turmoil::sim_elapsed()));
                    tokio::time::sleep(ms(2)).await;
                }
            }
        });
        for i in 0..4 {
            let r = sim.step();
            println!("errstep {} -> {:?} elapsed {:?} log {:?}", i + 1, r.map_err(|e| e.to_string()), sim.elapsed(), log.borrow_mut().drain(..).collect::<Vec<_>>());
        }
    }
    // 4. blocked writer after crash
    {
        let mut sim = turmoil::Builder::new().tick_duration(ms(1)).tcp_capacity(2)
            .min_message_latency(ms(1)).max_message_latency(ms(1)).build();
        let log = Rc::new(RefCell::new(Vec::<String>::new()));
        sim.host("srv", move || async move {
            let l = turmoil::net::TcpListener::bind("0.0.0.0:80").await?;
            let (_s, _) = l.accept().await?;
            std::future::pending::<()>().await;
            Ok(())
        });
        let l = log.clone();
        sim.client("cli", async move {
            let mut s = turmoil::net::TcpStream::connect("srv:80").await?;
            for i in 0..6 {
                let r = s.write_all(&[i]).await;
                l.borrow_mut().push(format!("write {i} -> {:?} at {:?}", r.map_err(|e| e.kind()), turmoil::elapsed()));
            }
            let mut b = [0u8; 4];
            let r = s.read(&mut b).await;
            l.borrow_mut().push(format!("read -> {:?} at {:?}", r.map_err(|e| e.kind()), turmoil::elapsed()));
            Ok(())
        });
        for i in 0..30 {
            if i == 8 {
                sim.crash("srv");
                println!("crashed; tables {:?}", sim.verif_host_tables("srv"));
            }
            let r = sim.step();
            let lg = log.borrow_mut().drain(..).collect::<Vec<_>>();
            if !lg.is_empty() || i == 29 {
                println!("wstep {} -> {:?} log {:?}", i + 1, r.map_err(|e| e.to_string()), lg);
            }
        }
        println!("cli tables {:?}", sim.verif_host_tables("cli"));
    }
    // 5. clocks in a drop guard during crash
    {
        struct G(Rc<RefCell<Vec<String>>>);
        impl Drop for G {
            fn drop(&mut self) {
                let r = util::catch(|| format!("{:?} {:?}", turmoil::elapsed(), turmoil::sim_elapsed()));
                self.0.borrow_mut().push(format!("drop {:?}", r));
            }
        }
        let mut sim = turmoil::Builder::new().tick_duration(ms(2)).build();
        let log = Rc::new(RefCell::new(Vec::<String>::new()));
        let l = log.clone();
        sim.host("h", move || {
            let l = l.clone();
            async move {
                let _g = G(l.clone());
                struct GS(std::sync::Arc<std::sync::Mutex<Vec<String>>>);
                impl Drop for GS {
                    fn drop(&mut self) {
                        let r = util::catch(|| format!("{:?} {:?}", turmoil::elapsed(), turmoil::sim_elapsed()));
                        println!("send-task drop {:?}", r);
                    }
                }
                let gs = GS(Default::default());
                tokio::spawn(async move {
                    let _g = gs;
                    std::future::pending::<()>().await;
                });
                let l3 = l.clone();
                tokio::task::spawn_local(async move {
                    let _g = G(l3);
                    std::future::pending::<()>().await;
                });
                std::future::pending::<()>().await;
                Ok(())
            }
        });
        sim.step().unwrap();
        sim.step().unwrap();
        sim.crash("h");
        println!("drop log {:?}", log.borrow());
    }
}

fn main() {
    let args: Vec<String> = std::env::args().skip(1).collect();
    match args.first().map(|s| s.as_str()) {
        Some("probe") => probe(),
        _ => {
            eprintln!("usage: simrun probe|replay|random|crash key=value...");
            std::process::exit(2);
        }
    }
}
