//! C17 driver: the socket table of turmoil-net (bind oracle + demux).
//!
//!   ksock replay in=<behaviours.ndjson> out=<summary.json> traces=<dir>
//!         n=<hosts> fams=4[,6] addrs=lo,a1,.. ports=5000,49152,.. [fill=<from>] [fillprotos=udp,tcp]
//!   ksock random seed= runs= n=<hosts> out=<trace.ndjson> [ops=] [probes=]
//!   ksock exhaust seed= out=<trace.ndjson>      (real 16 384-port range: wrap-around, exhaustion)
//!
//! No tokio runtime: the harness owns `Net` / `EnterGuard`, polls the shim's
//! futures by hand with `Waker::noop()`, and *is* the wire (`egress_all`,
//! `deliver`).  Probes are uniquely tagged datagrams sent by a prober socket
//! per host, bare SYNs put on the wire by the harness, and tagged bytes
//! written on established streams; "who observed it" comes from
//! `try_recv_from` / `try_read` / `poll_accept` on every socket of every host
//! and from the reply packet (SYN-ACK vs RST).

use std::collections::BTreeMap;
use std::future::Future;
use std::io::ErrorKind;
use std::net::{IpAddr, SocketAddr};
use std::pin::Pin;
use std::task::{Context, Poll, Waker};

use bytes::Bytes;
use rand::rngs::StdRng;
use rand::{Rng, SeedableRng};
use serde_json::{json, Value};
use turmoil_net::shim::tokio::net::{TcpListener, TcpStream, UdpSocket};
use turmoil_net::{EnterGuard, HostId, Net, Packet, TcpFlags, TcpSegment, Transport};
use vh::util;

const PROBE_PORT: u16 = 40000;
const SYN_PORT: u16 = 40001;
const EPH_LO: u16 = 49152;
const EPH_HI: u16 = 65535;

// ---------------------------------------------------------------------------
// names <-> addresses

fn ip_of(name: &str, fam: u8) -> IpAddr {
    let v4 = |s: &str| -> IpAddr { s.parse().unwrap() };
    match (name, fam) {
        ("wild", 4) => v4("0.0.0.0"),
        ("lo", 4) => v4("127.0.0.1"),
        ("lo2", 4) => v4("127.0.0.2"),
        ("a1", 4) => v4("10.0.1.1"),
        ("a2", 4) => v4("10.0.1.2"),
        ("b1", 4) => v4("10.0.2.1"),
        ("b2", 4) => v4("10.0.2.2"),
        ("c1", 4) => v4("10.0.3.1"),
        ("c2", 4) => v4("10.0.3.2"),
        ("x", 4) => v4("10.9.9.9"),
        ("wild", 6) => v4("::"),
        ("lo", 6) => v4("::1"),
        ("lo2", 6) => v4("fd00::7f:2"), // no IPv6 loopback alias exists; never used
        ("a1", 6) => v4("fd00::1:1"),
        ("a2", 6) => v4("fd00::1:2"),
        ("b1", 6) => v4("fd00::2:1"),
        ("b2", 6) => v4("fd00::2:2"),
        ("c1", 6) => v4("fd00::3:1"),
        ("c2", 6) => v4("fd00::3:2"),
        ("x", 6) => v4("fd00::9:9"),
        _ => panic!("unknown address name {name}/{fam}"),
    }
}

const NAMES: [&str; 10] = ["wild", "lo", "lo2", "a1", "a2", "b1", "b2", "c1", "c2", "x"];

fn name_of(ip: IpAddr) -> String {
    let fam = if ip.is_ipv4() { 4 } else { 6 };
    for n in NAMES {
        if ip_of(n, fam) == ip {
            return n.to_string();
        }
    }
    format!("?{ip}")
}

fn first_addr(h: usize) -> &'static str {
    match h {
        1 => "a1",
        2 => "b1",
        _ => "c1",
    }
}

fn host_addrs(h: usize) -> Vec<IpAddr> {
    let names: [&str; 2] = match h {
        1 => ["a1", "a2"],
        2 => ["b1", "b2"],
        _ => ["c1", "c2"],
    };
    // v4 first, then v6: `first address of the family` is a1 / b1 / c1
    vec![
        ip_of(names[0], 4),
        ip_of(names[1], 4),
        ip_of(names[0], 6),
        ip_of(names[1], 6),
    ]
}

fn cx() -> Context<'static> {
    Context::from_waker(Waker::noop())
}

fn poll_once<F: Future>(f: F) -> Option<F::Output> {
    let mut f = Box::pin(f);
    match f.as_mut().poll(&mut cx()) {
        Poll::Ready(v) => Some(v),
        Poll::Pending => None,
    }
}

fn kind_str(k: ErrorKind) -> String {
    match k {
        ErrorKind::AddrInUse => "AddrInUse".into(),
        ErrorKind::AddrNotAvailable => "AddrNotAvailable".into(),
        ErrorKind::ConnectionRefused => "Refused".into(),
        other => format!("{other:?}"),
    }
}

// ---------------------------------------------------------------------------
// the world

enum Real {
    Udp(UdpSocket),
    Listener(TcpListener),
    Stream(TcpStream),
    FillUdp(Vec<UdpSocket>),
    FillTcp(Vec<TcpListener>),
}

struct Sock {
    host: usize,
    real: Option<Real>, // None once closed
}

struct World {
    guard: EnterGuard,
    ids: Vec<HostId>, // index h-1
    n: usize,
    socks: Vec<Sock>, // index sid-1
    probers: BTreeMap<(usize, u8), UdpSocket>,
    tag: u32,
    trace: Option<Vec<Value>>, // Some = record events
}

impl World {
    fn new(n: usize, fams: &[u8], record: bool) -> World {
        let mut net = Net::new();
        let mut ids = Vec::new();
        for h in 1..=n {
            ids.push(net.add_host(host_addrs(h)));
        }
        let guard = net.enter();
        let mut w = World {
            guard,
            ids,
            n,
            socks: Vec::new(),
            probers: BTreeMap::new(),
            tag: 0,
            trace: if record { Some(vec![json!({"ev":"reset","hosts":n})]) } else { None },
        };
        for h in 1..=n {
            for &f in fams {
                w.cur(h);
                let sa = SocketAddr::new(ip_of(first_addr(h), f), PROBE_PORT);
                let s = poll_once(UdpSocket::bind(sa))
                    .expect("bind is immediate")
                    .expect("prober bind");
                w.probers.insert((h, f), s);
            }
        }
        w
    }

    fn cur(&self, h: usize) {
        self.guard.set_current(self.ids[h - 1]);
    }

    fn emit(&mut self, v: Value) {
        if let Some(t) = self.trace.as_mut() {
            t.push(v);
        }
    }

    fn next_tag(&mut self) -> [u8; 4] {
        self.tag += 1;
        self.tag.to_be_bytes()
    }

    /// Run the wire until nothing is left: every packet leaving a host is
    /// delivered at once.  Packets for which `hold` returns true are kept
    /// back and returned instead.
    fn pump(&self, hold: &dyn Fn(&Packet) -> bool) -> Vec<Packet> {
        let mut held = Vec::new();
        let mut out = Vec::new();
        for _ in 0..64 {
            self.guard.egress_all(&mut out);
            if out.is_empty() {
                break;
            }
            for p in out.drain(..) {
                if hold(&p) {
                    held.push(p);
                } else {
                    self.guard.deliver(p);
                }
            }
        }
        held
    }

    fn pump_all(&self) {
        self.pump(&|_| false);
    }

    fn live(&self, sid: usize) -> bool {
        sid >= 1 && sid <= self.socks.len() && self.socks[sid - 1].real.is_some()
    }

    // ---- API calls -------------------------------------------------------

    /// Returns (res, got, sid)
    fn bind(&mut self, h: usize, proto: &str, fam: u8, addr: &str, port: u16) -> (String, u16, usize) {
        self.bind_marked(h, proto, fam, addr, port, false)
    }

    /// `after_listener_close`: statistics marker only (the random driver re-binds the port of a
    /// listener it has just closed while an accepted connection is still open)
    fn bind_marked(
        &mut self,
        h: usize,
        proto: &str,
        fam: u8,
        addr: &str,
        port: u16,
        after_listener_close: bool,
    ) -> (String, u16, usize) {
        self.cur(h);
        let sa = SocketAddr::new(ip_of(addr, fam), port);
        let (res, got, real) = if proto == "udp" {
            match poll_once(UdpSocket::bind(sa)).expect("bind is immediate") {
                Ok(s) => ("Ok".to_string(), s.local_addr().unwrap().port(), Some(Real::Udp(s))),
                Err(e) => (kind_str(e.kind()), 0, None),
            }
        } else {
            match poll_once(TcpListener::bind(sa)).expect("bind is immediate") {
                Ok(s) => ("Ok".to_string(), s.local_addr().unwrap().port(), Some(Real::Listener(s))),
                Err(e) => (kind_str(e.kind()), 0, None),
            }
        };
        let mut sid = 0;
        if let Some(r) = real {
            self.socks.push(Sock { host: h, real: Some(r) });
            sid = self.socks.len();
        }
        self.emit(json!({"ev":"bind","h":h,"proto":proto,"fam":fam,"addr":addr,"port":port,
                         "res":res,"got":got,"sid":sid,"after_listener_close":after_listener_close}));
        (res, got, sid)
    }

    /// One explicit bind per port lo..=hi at `addr`.
    fn fill(&mut self, h: usize, proto: &str, fam: u8, addr: &str, lo: u16, hi: u16) -> bool {
        self.cur(h);
        let mut ok = true;
        let ip = ip_of(addr, fam);
        let real = if proto == "udp" {
            let mut v = Vec::with_capacity((hi - lo) as usize + 1);
            for p in lo..=hi {
                match poll_once(UdpSocket::bind(SocketAddr::new(ip, p))).unwrap() {
                    Ok(s) => v.push(s),
                    Err(_) => ok = false,
                }
            }
            Real::FillUdp(v)
        } else {
            let mut v = Vec::with_capacity((hi - lo) as usize + 1);
            for p in lo..=hi {
                match poll_once(TcpListener::bind(SocketAddr::new(ip, p))).unwrap() {
                    Ok(s) => v.push(s),
                    Err(_) => ok = false,
                }
            }
            Real::FillTcp(v)
        };
        let mut sid = 0;
        if ok {
            self.socks.push(Sock { host: h, real: Some(real) });
            sid = self.socks.len();
        } else {
            self.cur(h);
            drop(real);
        }
        self.emit(json!({"ev":"fill","h":h,"proto":proto,"fam":fam,"addr":addr,"lo":lo,"hi":hi,"ok":ok,"sid":sid}));
        ok
    }

    /// Close UDP sockets / listeners (one sid) or both ends of a connection
    /// (two sids: the close handshake is run to completion).
    fn close(&mut self, sids: &[usize]) {
        for &s in sids {
            if !self.live(s) {
                continue;
            }
            let h = self.socks[s - 1].host;
            self.cur(h);
            let r = self.socks[s - 1].real.take();
            drop(r);
            self.pump_all();
        }
        // one more egress pass so `reap_closed` sees the final states
        self.pump_all();
        self.pump_all();
        self.emit(json!({"ev":"close","sids":sids}));
    }

    fn connect_udp(&mut self, sid: usize, pa: &str, pp: u16) {
        let h = self.socks[sid - 1].host;
        self.cur(h);
        let fam = match &self.socks[sid - 1].real {
            Some(Real::Udp(s)) => {
                if s.local_addr().unwrap().is_ipv4() {
                    4
                } else {
                    6
                }
            }
            _ => panic!("connect_udp on a non-UDP socket"),
        };
        let peer = SocketAddr::new(ip_of(pa, fam), pp);
        if let Some(Real::Udp(s)) = &self.socks[sid - 1].real {
            poll_once(s.connect(peer)).expect("udp connect is immediate").expect("udp connect");
        }
        self.emit(json!({"ev":"connect_udp","sid":sid,"pa":pa,"pp":pp}));
    }

    /// poll_accept on every live listener of every host; returns (listener sid, stream, peer)
    fn accept_all(&mut self) -> Vec<(usize, TcpStream, SocketAddr)> {
        let mut res = Vec::new();
        for i in 0..self.socks.len() {
            let h = self.socks[i].host;
            if let Some(Real::Listener(l)) = &self.socks[i].real {
                self.cur(h);
                while let Poll::Ready(Ok((st, peer))) = l.poll_accept(&mut cx()) {
                    res.push((i + 1, st, peer));
                }
            }
        }
        res
    }

    /// TcpStream::connect from host h with the wire delivering everything at
    /// once.  Returns the event that was recorded.
    fn connect(&mut self, h: usize, fam: u8, da: &str, dp: u16) -> Value {
        self.cur(h);
        let dst = SocketAddr::new(ip_of(da, fam), dp);
        let mut fut: Pin<Box<dyn Future<Output = std::io::Result<TcpStream>>>> =
            Box::pin(TcpStream::connect(dst));
        let mut out = fut.as_mut().poll(&mut cx());
        if out.is_pending() {
            self.pump_all();
            self.cur(h);
            out = fut.as_mut().poll(&mut cx());
        }
        let ev = match out {
            Poll::Pending => {
                self.cur(h);
                drop(fut); // FdGuard reaps the SynSent socket
                self.pump_all();
                json!({"ev":"connect","h":h,"fam":fam,"da":da,"dp":dp,"res":"NoReply","acc":0,
                       "cla":"","clp":0,"cha":"","chp":0,"csid":0,"ksid":0})
            }
            Poll::Ready(Err(e)) => {
                self.cur(h);
                drop(fut);
                self.pump_all();
                json!({"ev":"connect","h":h,"fam":fam,"da":da,"dp":dp,"res":kind_str(e.kind()),"acc":0,
                       "cla":"","clp":0,"cha":"","chp":0,"csid":0,"ksid":0})
            }
            Poll::Ready(Ok(client)) => {
                drop(fut);
                self.cur(h);
                let cl = client.local_addr().unwrap();
                let accepted = self.accept_all();
                let mut acc = 0usize;
                let mut child: Option<(usize, TcpStream)> = None;
                let mut strays = Vec::new();
                for (lsid, st, peer) in accepted {
                    if peer == cl && child.is_none() {
                        acc = lsid;
                        child = Some((self.socks[lsid - 1].host, st));
                    } else {
                        strays.push((self.socks[lsid - 1].host, st));
                    }
                }
                for (sh, st) in strays {
                    self.cur(sh);
                    drop(st);
                }
                match child {
                    Some((th, st)) => {
                        self.cur(th);
                        let chl = st.local_addr().unwrap();
                        self.socks.push(Sock { host: h, real: Some(Real::Stream(client)) });
                        let csid = self.socks.len();
                        self.socks.push(Sock { host: th, real: Some(Real::Stream(st)) });
                        let ksid = self.socks.len();
                        json!({"ev":"connect","h":h,"fam":fam,"da":da,"dp":dp,"res":"Ok","acc":acc,
                               "cla":name_of(cl.ip()),"clp":cl.port(),
                               "cha":name_of(chl.ip()),"chp":chl.port(),"csid":csid,"ksid":ksid})
                    }
                    None => {
                        // connected but nobody can accept it
                        self.cur(h);
                        drop(client);
                        self.pump_all();
                        json!({"ev":"connect","h":h,"fam":fam,"da":da,"dp":dp,"res":"OkNoAccept","acc":0,
                               "cla":name_of(cl.ip()),"clp":cl.port(),"cha":"","chp":0,"csid":0,"ksid":0})
                    }
                }
            }
        };
        self.emit(ev.clone());
        ev
    }

    // ---- probes ----------------------------------------------------------

    /// Tagged datagram from host `from`'s prober to (da, dp); returns the
    /// sids of the sockets that received it (probers: -(host)).
    fn probe_udp(&mut self, from: usize, fam: u8, da: &str, dp: u16) -> Vec<i64> {
        let tag = self.next_tag();
        let sa = first_addr(from);
        self.cur(from);
        let dst = SocketAddr::new(ip_of(da, fam), dp);
        let sent = self.probers[&(from, fam)].try_send_to(&tag, dst);
        if sent.is_err() {
            panic!("prober send failed: {sent:?}");
        }
        self.pump_all();
        let mut obs: Vec<i64> = Vec::new();
        let mut buf = [0u8; 16];
        for i in 0..self.socks.len() {
            let h = self.socks[i].host;
            if let Some(Real::Udp(s)) = &self.socks[i].real {
                self.cur(h);
                while let Ok((n, _)) = s.try_recv_from(&mut buf) {
                    if n == 4 && buf[..4] == tag {
                        obs.push(i as i64 + 1);
                    }
                }
            }
        }
        for (&(h, _f), s) in &self.probers {
            self.cur(h);
            while let Ok((n, _)) = s.try_recv_from(&mut buf) {
                if n == 4 && buf[..4] == tag {
                    obs.push(-(h as i64));
                }
            }
        }
        obs.sort();
        self.emit(json!({"ev":"probe_udp","from":from,"fam":fam,"sa":sa,"sp":PROBE_PORT,"da":da,"dp":dp,"obs":obs}));
        obs
    }

    /// Bare SYN from (sa, sp) to (da, dp) put on the wire.  Returns (reply, obs).
    fn probe_syn(&mut self, from: usize, fam: u8, sa: &str, sp: u16, da: &str, dp: u16) -> (String, Vec<i64>) {
        let src = ip_of(sa, fam);
        let dst = ip_of(da, fam);
        let seg = |seq: u32, ack: u32, flags: TcpFlags| Packet {
            src,
            dst,
            ttl: 64,
            payload: Transport::Tcp(TcpSegment {
                src_port: sp,
                dst_port: dp,
                seq,
                ack,
                flags,
                window: 65535,
                payload: Bytes::new(),
            }),
        };
        let is_reply = move |p: &Packet| match &p.payload {
            Transport::Tcp(s) => p.dst == src && p.src == dst && s.dst_port == sp && s.src_port == dp,
            _ => false,
        };
        self.guard.deliver(seg(1000, 0, TcpFlags { syn: true, ..TcpFlags::default() }));
        let replies = self.pump(&is_reply);
        let mut reply = "none".to_string();
        let mut obs: Vec<i64> = Vec::new();
        let mut synack_seq = None;
        for p in &replies {
            if let Transport::Tcp(s) = &p.payload {
                if s.flags.syn && s.flags.ack {
                    reply = "synack".into();
                    synack_seq = Some(s.seq);
                } else if s.flags.rst && reply == "none" {
                    reply = "rst".into();
                } else if reply == "none" {
                    if std::env::var("KSOCK_DEBUG").is_ok() {
                        eprintln!("unexpected reply to SYN probe: {p:?}");
                    }
                    reply = "ack".into();
                }
            }
        }
        if let Some(sseq) = synack_seq {
            // finish the handshake so the connection can be accepted
            self.guard
                .deliver(seg(1001, sseq.wrapping_add(1), TcpFlags { ack: true, ..TcpFlags::default() }));
            let _ = self.pump(&is_reply);
            let want_peer = SocketAddr::new(src, sp);
            let accepted = self.accept_all();
            // abort the probe connection before dropping the accepted stream
            self.guard.deliver(seg(1001, 0, TcpFlags { rst: true, ..TcpFlags::default() }));
            let _ = self.pump(&is_reply);
            for (lsid, st, peer) in accepted {
                if peer == want_peer {
                    obs.push(lsid as i64);
                } else {
                    obs.push(-100 - lsid as i64);
                }
                let h = self.socks[lsid - 1].host;
                self.cur(h);
                drop(st);
            }
            let _ = self.pump(&is_reply);
        }
        obs.sort();
        self.emit(json!({"ev":"probe_syn","from":from,"fam":fam,"sa":sa,"sp":sp,"da":da,"dp":dp,
                         "reply":reply,"obs":obs}));
        (reply, obs)
    }

    /// A SYN from (sa, sp) to (da, dp) whose handshake never completes: the wire loses every
    /// answer (no ACK, no RST ever goes back) and keeps turning until the server side has given
    /// up retransmitting its SYN-ACK.  Returns the kind of the first answer.
    fn stall_syn(&mut self, from: usize, fam: u8, sa: &str, sp: u16, da: &str, dp: u16) -> String {
        let src = ip_of(sa, fam);
        let dst = ip_of(da, fam);
        let is_reply = move |p: &Packet| match &p.payload {
            Transport::Tcp(s) => p.dst == src && p.src == dst && s.dst_port == sp && s.src_port == dp,
            _ => false,
        };
        self.guard.deliver(Packet {
            src,
            dst,
            ttl: 64,
            payload: Transport::Tcp(TcpSegment {
                src_port: sp,
                dst_port: dp,
                seq: 1000,
                ack: 0,
                flags: TcpFlags { syn: true, ..TcpFlags::default() },
                window: 65535,
                payload: Bytes::new(),
            }),
        });
        let mut reply = "none".to_string();
        let mut quiet = 0;
        let mut out = Vec::new();
        // retx_threshold (3) x (retx_max (5) + 1) egress passes exhaust the budget; go on until the
        // stack has been silent towards the client for a while
        for _ in 0..400 {
            self.guard.egress_all(&mut out);
            let mut answered = false;
            for p in out.drain(..) {
                if is_reply(&p) {
                    answered = true;
                    if reply == "none" {
                        if let Transport::Tcp(s) = &p.payload {
                            reply = if s.flags.syn && s.flags.ack {
                                "synack"
                            } else if s.flags.rst {
                                "rst"
                            } else {
                                "ack"
                            }
                            .to_string();
                        }
                    }
                    // lost
                } else {
                    self.guard.deliver(p);
                }
            }
            quiet = if answered { 0 } else { quiet + 1 };
            if quiet >= 12 {
                break;
            }
        }
        self.emit(json!({"ev":"stall","from":from,"fam":fam,"sa":sa,"sp":sp,"da":da,"dp":dp,"reply":reply}));
        reply
    }

    /// Close listener `lsid` in the middle of a handshake: a SYN from (sa, sp) reaches it through
    /// `da`, its SYN-ACK is still on the wire when the listener is dropped; the client's ACK arrives
    /// afterwards.  Everything the server sends to that client is lost.  Recorded as a plain close.
    fn close_mid(&mut self, lsid: usize, fam: u8, sa: &str, sp: u16, da: &str, dp: u16) {
        let src = ip_of(sa, fam);
        let dst = ip_of(da, fam);
        let seg = |seq: u32, ack: u32, flags: TcpFlags| Packet {
            src,
            dst,
            ttl: 64,
            payload: Transport::Tcp(TcpSegment {
                src_port: sp,
                dst_port: dp,
                seq,
                ack,
                flags,
                window: 65535,
                payload: Bytes::new(),
            }),
        };
        let is_reply = move |p: &Packet| match &p.payload {
            Transport::Tcp(s) => p.dst == src && p.src == dst && s.dst_port == sp && s.src_port == dp,
            _ => false,
        };
        self.guard.deliver(seg(1000, 0, TcpFlags { syn: true, ..TcpFlags::default() }));
        let replies = self.pump(&is_reply);
        let synack_seq = replies.iter().find_map(|p| match &p.payload {
            Transport::Tcp(s) if s.flags.syn && s.flags.ack => Some(s.seq),
            _ => None,
        });
        if self.live(lsid) {
            let h = self.socks[lsid - 1].host;
            self.cur(h);
            let r = self.socks[lsid - 1].real.take();
            drop(r);
        }
        let _ = self.pump(&is_reply);
        if let Some(sseq) = synack_seq {
            // the client's ACK of the SYN-ACK arrives late
            self.guard
                .deliver(seg(1001, sseq.wrapping_add(1), TcpFlags { ack: true, ..TcpFlags::default() }));
            let _ = self.pump(&is_reply);
        }
        let _ = self.pump(&is_reply);
        self.emit(json!({"ev":"close","sids":[lsid],"mid":true}));
    }

    /// Tagged bytes written on stream `c`; returns the stream sids that read them.
    fn probe_data(&mut self, c: usize) -> Vec<i64> {
        let tag = self.next_tag();
        let h = self.socks[c - 1].host;
        self.cur(h);
        if let Some(Real::Stream(s)) = &self.socks[c - 1].real {
            let _ = s.try_write(&tag);
        }
        self.pump_all();
        let mut obs = Vec::new();
        let mut buf = [0u8; 64];
        for i in 0..self.socks.len() {
            let sh = self.socks[i].host;
            if let Some(Real::Stream(s)) = &self.socks[i].real {
                self.cur(sh);
                while let Ok(n) = s.try_read(&mut buf) {
                    if n == 0 {
                        break;
                    }
                    if buf[..n].windows(4).any(|w| w == tag) {
                        obs.push(i as i64 + 1);
                    }
                }
            }
        }
        self.pump_all(); // window updates / ACKs
        obs.sort();
        self.emit(json!({"ev":"data","c":c,"obs":obs}));
        obs
    }

    /// (addr name, port) of a live stream socket
    fn stream_local(&self, sid: usize) -> Option<(String, u16)> {
        let h = self.socks[sid - 1].host;
        self.cur(h);
        match &self.socks[sid - 1].real {
            Some(Real::Stream(s)) => s.local_addr().ok().map(|a| (name_of(a.ip()), a.port())),
            _ => None,
        }
    }

    fn stream_peer(&self, sid: usize) -> Option<(String, u16)> {
        let h = self.socks[sid - 1].host;
        self.cur(h);
        match &self.socks[sid - 1].real {
            Some(Real::Stream(s)) => s.peer_addr().ok().map(|a| (name_of(a.ip()), a.port())),
            _ => None,
        }
    }

    fn teardown(mut self) -> Vec<Value> {
        // sockets close against the host that is current: close each under its owner
        for i in 0..self.socks.len() {
            let h = self.socks[i].host;
            self.cur(h);
            match self.socks[i].real.take() {
                // a block of 16 381 sockets: closing them one by one is quadratic (every close
                // shifts the socket table); the whole Net is dropped right after, so just let go
                Some(Real::FillUdp(v)) => std::mem::forget(v),
                Some(Real::FillTcp(v)) => std::mem::forget(v),
                r => drop(r),
            }
        }
        let keys: Vec<(usize, u8)> = self.probers.keys().cloned().collect();
        for k in keys {
            self.cur(k.0);
            let s = self.probers.remove(&k);
            drop(s);
        }
        self.trace.take().unwrap_or_default()
    }
}

// ---------------------------------------------------------------------------
// replay of TLC behaviours

struct ReplayCfg {
    n: usize,
    fams: Vec<u8>,
    addrs: Vec<String>,
    ports: Vec<u16>,
    fill_from: u16,
    fill_protos: Vec<String>,
    fill_hosts: Vec<usize>,
}

fn as_i64s(v: &Value) -> Vec<i64> {
    v.as_array().map(|a| a.iter().filter_map(|x| x.as_i64()).collect()).unwrap_or_default()
}

fn code_of(obs: &[i64]) -> Value {
    if obs.is_empty() {
        json!(0)
    } else if obs.len() == 1 {
        json!(obs[0])
    } else {
        json!(obs)
    }
}

fn syn_code(reply: &str, obs: &[i64]) -> Value {
    match reply {
        "synack" => {
            if obs.len() == 1 {
                json!(obs[0])
            } else {
                json!({"reply":"synack","obs":obs})
            }
        }
        "rst" => json!(-1),
        "ack" if obs.is_empty() => json!(-2),
        "none" => json!(0),
        other => json!({"reply":other,"obs":obs}),
    }
}

/// Execute one behaviour.  With `stop_at_first` the run stops at the first
/// disagreement with TLC's prediction.  Returns (divergence, trace, nontrivial).
fn replay_one(beh: &[Value], cfg: &ReplayCfg, record: bool) -> (Option<Value>, Vec<Value>, bool) {
    let mut w = World::new(cfg.n, &cfg.fams, record);
    let mut div: Option<Value> = None;
    let mut saw_err = false;
    let mut saw_obs = false;
    // pre-filled blocks, in the order of KSock!FillSeq (host, udp before tcp, family)
    if cfg.fill_from != 0 {
        for &h in &cfg.fill_hosts {
            for proto in ["udp", "tcp"] {
                if !cfg.fill_protos.iter().any(|p| p == proto) {
                    continue;
                }
                for &f in &cfg.fams {
                    let ok = w.fill(h, proto, f, "lo", cfg.fill_from, EPH_HI);
                    if !ok && div.is_none() {
                        div = Some(json!({"at":0,"what":"fill failed"}));
                    }
                }
            }
        }
    }
    for (i, e) in beh.iter().enumerate() {
        let act = &e["act"];
        let a = act["a"].as_str().unwrap_or("");
        let mut mism: Option<Value> = None;
        match a {
            "bind" => {
                let (res, got, sid) = w.bind(
                    act["h"].as_u64().unwrap() as usize,
                    act["proto"].as_str().unwrap(),
                    act["fam"].as_u64().unwrap() as u8,
                    act["addr"].as_str().unwrap(),
                    act["port"].as_u64().unwrap() as u16,
                );
                if res != "Ok" {
                    saw_err = true;
                }
                if res != act["res"].as_str().unwrap()
                    || got as u64 != act["got"].as_u64().unwrap()
                    || sid as u64 != act["sid"].as_u64().unwrap()
                {
                    mism = Some(json!({"what":"bind","want":act,"got":{"res":res,"got":got,"sid":sid}}));
                }
            }
            "close" => {
                let sids: Vec<usize> = as_i64s(&act["sids"]).iter().map(|&x| x as usize).collect();
                if act["mid"].is_object() {
                    let m = &act["mid"];
                    w.close_mid(
                        sids[0],
                        m["fam"].as_u64().unwrap() as u8,
                        m["sa"].as_str().unwrap(),
                        m["sp"].as_u64().unwrap() as u16,
                        m["da"].as_str().unwrap(),
                        m["dp"].as_u64().unwrap() as u16,
                    );
                } else {
                    w.close(&sids);
                }
            }
            "connect_udp" => {
                w.connect_udp(
                    act["sid"].as_u64().unwrap() as usize,
                    act["pa"].as_str().unwrap(),
                    act["pp"].as_u64().unwrap() as u16,
                );
            }
            "connect" => {
                let ev = w.connect(
                    act["h"].as_u64().unwrap() as usize,
                    act["fam"].as_u64().unwrap() as u8,
                    act["da"].as_str().unwrap(),
                    act["dp"].as_u64().unwrap() as u16,
                );
                if ev["res"] != "Ok" {
                    saw_err = true;
                }
                let mut same = ev["res"] == act["res"] && ev["acc"] == act["acc"];
                if same && ev["res"] == "Ok" {
                    same = ev["cla"] == act["cla"]
                        && ev["clp"] == act["clp"]
                        && ev["cha"] == act["da"]
                        && ev["chp"] == act["dp"]
                        && ev["csid"] == act["csid"]
                        && ev["ksid"] == act["ksid"];
                }
                if !same {
                    mism = Some(json!({"what":"connect","want":act,"got":ev}));
                }
            }
            "stall" => {
                let reply = w.stall_syn(
                    act["from"].as_u64().unwrap() as usize,
                    act["fam"].as_u64().unwrap() as u8,
                    act["sa"].as_str().unwrap(),
                    act["sp"].as_u64().unwrap() as u16,
                    act["da"].as_str().unwrap(),
                    act["dp"].as_u64().unwrap() as u16,
                );
                if reply != "synack" {
                    saw_err = true;
                }
                if reply != act["reply"].as_str().unwrap() {
                    mism = Some(json!({"what":"stall","want":act,"got":{"res":reply}}));
                }
            }
            other => panic!("unknown action {other}"),
        }
        // ---- the probe sweep TLC predicted for the post-state ----
        if mism.is_none() || record {
            for (fi, &f) in cfg.fams.iter().enumerate() {
                for h in 1..=cfg.n {
                    for (ai, ad) in cfg.addrs.iter().enumerate() {
                        for (pi, &p) in cfg.ports.iter().enumerate() {
                            let want_u = &e["udp"][fi][h - 1][ai][pi];
                            if !want_u.is_null() {
                                let obs = w.probe_udp(h, f, ad, p);
                                if !obs.is_empty() {
                                    saw_obs = true;
                                }
                                let got = code_of(&obs);
                                if &got != want_u && mism.is_none() {
                                    mism = Some(json!({"what":"probe_udp","from":h,"fam":f,"da":ad,"dp":p,
                                                       "want":want_u,"got":got}));
                                }
                            }
                            let want_s = &e["syn"][fi][h - 1][ai][pi];
                            if !want_s.is_null() && want_s != &json!(-9) {
                                let (reply, obs) = w.probe_syn(h, f, first_addr(h), SYN_PORT, ad, p);
                                if reply == "synack" {
                                    saw_obs = true;
                                }
                                let got = syn_code(&reply, &obs);
                                if &got != want_s && mism.is_none() {
                                    mism = Some(json!({"what":"probe_syn","from":h,"fam":f,"da":ad,"dp":p,
                                                       "want":want_s,"got":got}));
                                }
                            }
                        }
                    }
                }
            }
            if let Some(conn) = e["conn"].as_array() {
                for c in conn {
                    let v = as_i64s(c);
                    let (cs, ms) = (v[0] as usize, v[1] as usize);
                    let o1 = w.probe_data(cs);
                    let o2 = w.probe_data(ms);
                    saw_obs = true;
                    if (code_of(&o1) != json!(v[2]) || code_of(&o2) != json!(v[3])) && mism.is_none() {
                        mism = Some(json!({"what":"data","pair":[cs,ms],"want":[v[2],v[3]],"got":[o1,o2]}));
                    }
                    if v[4] != -9 {
                        if let (Some((la, lp)), Some((pa, pp))) = (w.stream_local(cs), w.stream_peer(cs)) {
                            let fam = if ip_is_v4(&w, cs) { 4 } else { 6 };
                            let (reply, obs) = w.probe_syn(w.socks[cs - 1].host, fam, &la, lp, &pa, pp);
                            let got = syn_code(&reply, &obs);
                            if got != json!(v[4]) && mism.is_none() {
                                mism = Some(json!({"what":"probe_syn_4tuple","pair":[cs,ms],"want":v[4],"got":got}));
                            }
                        }
                    }
                }
            }
        }
        if let Some(mut m) = mism {
            if div.is_none() {
                m["at"] = json!(i);
                div = Some(m);
            }
            if !record {
                break;
            }
        }
    }
    let trace = w.teardown();
    (div, trace, saw_err && saw_obs)
}

fn ip_is_v4(w: &World, sid: usize) -> bool {
    let h = w.socks[sid - 1].host;
    w.cur(h);
    match &w.socks[sid - 1].real {
        Some(Real::Stream(s)) => s.local_addr().map(|a| a.is_ipv4()).unwrap_or(true),
        _ => true,
    }
}

fn parse_list(s: &str) -> Vec<String> {
    s.split(',').filter(|x| !x.is_empty()).map(|x| x.to_string()).collect()
}

fn main_replay(args: &[String]) {
    let inp = util::arg(args, "in").expect("in=");
    let out = util::arg(args, "out").expect("out=");
    let traces = util::arg(args, "traces");
    let cfg = ReplayCfg {
        n: util::arg_u64(args, "n", 2) as usize,
        fams: parse_list(&util::arg(args, "fams").unwrap_or("4".into()))
            .iter()
            .map(|x| x.parse().unwrap())
            .collect(),
        addrs: parse_list(&util::arg(args, "addrs").unwrap_or_default()),
        ports: parse_list(&util::arg(args, "ports").unwrap_or_default())
            .iter()
            .map(|x| x.parse().unwrap())
            .collect(),
        fill_from: util::arg_u64(args, "fill", 0) as u16,
        fill_protos: parse_list(&util::arg(args, "fillprotos").unwrap_or("udp,tcp".into())),
        fill_hosts: parse_list(&util::arg(args, "fillhosts").unwrap_or("1".into()))
            .iter()
            .map(|x| x.parse().unwrap())
            .collect(),
    };
    let text = std::fs::read_to_string(&inp).expect("read behaviours");
    let (mut total, mut nontrivial, mut ndiv) = (0u64, 0u64, 0u64);
    let mut divs: Vec<Value> = Vec::new();
    let mut samples: Vec<Value> = Vec::new();
    let mut sigs: BTreeMap<String, u32> = BTreeMap::new();
    for (k, line) in text.lines().enumerate() {
        if line.trim().is_empty() {
            continue;
        }
        let beh: Vec<Value> = serde_json::from_str(line).expect("behaviour json");
        // a panic of the code under test is caught below, but a panic while unwinding (sockets closing
        // against a poisoned Net) aborts the process: leave a note saying which behaviour was running
        let _ = std::fs::write(format!("{out}.progress"), k.to_string());
        let (d, _, nt) = match util::catch(|| replay_one(&beh, &cfg, false)) {
            Ok(r) => r,
            Err(p) => (Some(json!({"what":"panic","msg":p})), vec![], false),
        };
        total += 1;
        if nt {
            nontrivial += 1;
        }
        if samples.len() < 2 && nt {
            let acts: Vec<&Value> = beh.iter().map(|e| &e["act"]).collect();
            let (_, tr, _) = replay_one(&beh, &cfg, true);
            samples.push(json!({"behaviour_actions": acts, "trace_excerpt": tr.iter().take(10).collect::<Vec<_>>()}));
        }
        if let Some(mut d) = d {
            ndiv += 1;
            // keep a few divergences of every kind (what diverged, wanted vs observed result), not
            // just the first ones: the PropSpec may accept one kind (drift) and reject another
            let sig = format!(
                "{}|{}|{}|{}|{}",
                d["what"],
                d["want"]["res"],
                d["got"]["res"],
                d["want"]["got"] == d["got"]["got"],
                if d["want"].is_object() { json!(null) } else { d["want"].clone() }
            );
            let seen = sigs.entry(sig).or_insert(0u32);
            *seen += 1;
            if *seen <= 2 && divs.len() < 24 {
                d["line"] = json!(k);
                if let Some(dir) = &traces {
                    let p = format!("{dir}/div-{}.ndjson", divs.len());
                    if let Ok((_, tr, _)) = util::catch(|| replay_one(&beh, &cfg, true)) {
                        util::write_ndjson(&p, &tr);
                        d["trace"] = json!(p);
                    }
                    d["behaviour"] = json!(beh);
                }
                divs.push(d);
            }
        }
    }
    let summary = json!({"behaviours": total, "nontrivial": nontrivial, "divergent": ndiv,
        "divergences": divs, "samples": samples});
    std::fs::write(&out, serde_json::to_string(&summary).unwrap()).unwrap();
    let _ = std::fs::remove_file(format!("{out}.progress"));
    println!("replayed={total} nontrivial={nontrivial} divergent={ndiv}");
}

// ---------------------------------------------------------------------------
// random scenarios (code -> spec)

struct Model {
    // what the random driver needs to know to pick meaningful operations
    udp: Vec<usize>,                                  // live UDP sids
    listeners: Vec<(usize, usize, u8, u16)>,          // (sid, host, fam, port)
    pairs: Vec<(usize, usize)>,                       // live (client, child)
    bound: Vec<(usize, usize, u8, String, u16)>,      // live (sid, host, fam, addr, port)
    ports_seen: Vec<u16>,
    // (host, fam, port) of a listener that was closed while a connection it accepted is still open
    orphaned: Option<(usize, u8, u16)>,
    accepted_by: BTreeMap<usize, usize>,              // child sid -> listener sid
}

fn host_addr_names(h: usize) -> [&'static str; 2] {
    match h {
        1 => ["a1", "a2"],
        2 => ["b1", "b2"],
        _ => ["c1", "c2"],
    }
}

fn random_run(rng: &mut StdRng, n: usize, ops: usize, probes: usize, all: &mut Vec<Value>) {
    let fams = [4u8, 6u8];
    let mut w = World::new(n, &fams, true);
    let mut m = Model {
        udp: vec![],
        listeners: vec![],
        pairs: vec![],
        bound: vec![],
        ports_seen: vec![5000, 5001, EPH_LO, EPH_LO + 1],
        orphaned: None,
        accepted_by: BTreeMap::new(),
    };
    let all_addrs: Vec<&str> = {
        // "wild": the unspecified address as a *destination* (owned by nobody, like "x")
        let mut v = vec!["lo", "a1", "a2", "b1", "b2", "x", "wild"];
        if n >= 3 {
            v.push("c1");
            v.push("c2");
        }
        v
    };
    for _ in 0..ops {
        let r = rng.random_range(0..100);
        let mut continue_probes = false;
        if let Some((oh, ofam, oport)) = m.orphaned.take() {
            // the listener is gone, its accepted child lives on: bind that port again (the address the
            // child sits on, the wildcard, the host's other address) or ask for an ephemeral port
            let own = host_addr_names(oh);
            let addr = ["wild", own[0], own[1], "lo"][rng.random_range(0..4)];
            let port = if rng.random_bool(0.75) { oport } else { 0 };
            let (res, got, sid) = w.bind_marked(oh, "tcp", ofam, addr, port, true);
            if res == "Ok" {
                if !m.ports_seen.contains(&got) {
                    m.ports_seen.push(got);
                }
                m.bound.push((sid, oh, ofam, addr.to_string(), got));
                m.listeners.push((sid, oh, ofam, got));
            }
        } else if r < 45 {
            let h = rng.random_range(1..=n);
            let proto = if rng.random_bool(0.5) { "udp" } else { "tcp" };
            let fam = if rng.random_bool(0.7) { 4 } else { 6 };
            // mostly the host's own addresses / wildcard / loopback, sometimes a foreign one
            let own = host_addr_names(h);
            let addr: &str = match rng.random_range(0..10) {
                0..=2 => "wild",
                3 => "lo",
                4..=5 => own[0],
                6..=7 => own[1],
                _ => all_addrs[rng.random_range(0..all_addrs.len())],
            };
            let port = match rng.random_range(0..20) {
                0..=4 => 0,
                5..=10 => 5000,
                11 => 5001,
                12..=13 => EPH_LO + rng.random_range(0..3),
                _ => m.ports_seen[rng.random_range(0..m.ports_seen.len())],
            };
            let (res, got, sid) = w.bind(h, proto, fam, addr, port);
            if res == "Ok" {
                if !m.ports_seen.contains(&got) {
                    m.ports_seen.push(got);
                }
                m.bound.push((sid, h, fam, addr.to_string(), got));
                if proto == "udp" {
                    m.udp.push(sid);
                } else {
                    m.listeners.push((sid, h, fam, got));
                }
            }
        } else if r < 58 {
            // close a UDP socket / listener / connection
            let k = rng.random_range(0..3);
            let mut closed: Vec<usize> = vec![];
            if k == 0 && !m.udp.is_empty() {
                let s = m.udp.swap_remove(rng.random_range(0..m.udp.len()));
                closed.push(s);
            } else if k == 1 && !m.listeners.is_empty() {
                // prefer a listener that has accepted a connection which is still open
                let with_child: Vec<usize> = (0..m.listeners.len())
                    .filter(|&i| m.pairs.iter().any(|p| m.accepted_by.get(&p.1) == Some(&m.listeners[i].0)))
                    .collect();
                let i = if !with_child.is_empty() && rng.random_bool(0.8) {
                    with_child[rng.random_range(0..with_child.len())]
                } else {
                    rng.random_range(0..m.listeners.len())
                };
                let s = m.listeners.swap_remove(i);
                if m.pairs.iter().any(|p| m.accepted_by.get(&p.1) == Some(&s.0)) {
                    m.orphaned = Some((s.1, s.2, s.3));
                }
                closed.push(s.0);
            } else if !m.pairs.is_empty() {
                let p = m.pairs.swap_remove(rng.random_range(0..m.pairs.len()));
                closed.push(p.0);
                closed.push(p.1);
            }
            if !closed.is_empty() {
                w.close(&closed);
                m.bound.retain(|b| !closed.contains(&b.0));
            }
        } else if r < 70 {
            if !m.udp.is_empty() {
                let s = m.udp[rng.random_range(0..m.udp.len())];
                let pa = ["a1", "b1", "a2", "c1"][rng.random_range(0..if n >= 3 { 4 } else { 3 })];
                w.connect_udp(s, pa, PROBE_PORT);
            }
        } else if r < 76 && !m.listeners.is_empty() {
            // a handshake towards a live listener that stalls until the server gives up; often the
            // listener is closed right afterwards and its port bound again
            let i = rng.random_range(0..m.listeners.len());
            let l = m.listeners[i];
            let froms: Vec<usize> = (1..=n).filter(|&h| h != l.1).collect();
            let from = froms[rng.random_range(0..froms.len())];
            // an address through which a SYN from another host reaches this listener (none for a
            // loopback-bound one: then the SYN is simply refused and the listener is left alone)
            let laddr = m.bound.iter().find(|b| b.0 == l.0).map(|b| b.3.clone()).unwrap_or_default();
            let own = host_addr_names(l.1);
            let reach: Option<&str> = match laddr.as_str() {
                "wild" => Some(own[rng.random_range(0..2)]),
                a if a == own[0] => Some(own[0]),
                a if a == own[1] => Some(own[1]),
                _ => None,
            };
            let da = reach.unwrap_or(own[0]);
            if reach.is_some() && rng.random_bool(0.45) {
                // the listener is closed while this handshake is in flight, its port is bound again next
                let l = m.listeners.swap_remove(i);
                w.close_mid(l.0, l.2, first_addr(from), SYN_PORT, da, l.3);
                m.bound.retain(|b| b.0 != l.0);
                m.orphaned = Some((l.1, l.2, l.3));
                continue_probes = true;
            } else {
            w.stall_syn(from, l.2, first_addr(from), SYN_PORT, da, l.3);
            if rng.random_bool(0.6) {
                let l = m.listeners.swap_remove(i);
                w.close(&[l.0]);
                m.bound.retain(|b| b.0 != l.0);
                m.orphaned = Some((l.1, l.2, l.3));
            }
            }
            let _ = continue_probes;
        } else {
            // TCP connect: to a live listener's port on the host the address leads to, or to a
            // fixed port (never to a free ephemeral port: a SYN meeting its own SynSent socket
            // is outside the model)
            let h = rng.random_range(1..=n);
            let (fam, da): (u8, String) = if !m.listeners.is_empty() && rng.random_bool(0.75) {
                let l = m.listeners[rng.random_range(0..m.listeners.len())];
                let own = host_addr_names(l.1);
                let da = if l.1 == h && rng.random_bool(0.4) {
                    "lo"
                } else {
                    own[rng.random_range(0..2)]
                };
                (l.2, da.to_string())
            } else {
                (fams[rng.random_range(0..2)], all_addrs[rng.random_range(0..all_addrs.len())].to_string())
            };
            let target = if da == "lo" { h } else { owner(&da) };
            let cands: Vec<u16> = m
                .listeners
                .iter()
                .filter(|l| l.1 == target && l.2 == fam)
                .map(|l| l.3)
                .collect();
            let dp = if !cands.is_empty() && rng.random_bool(0.8) {
                cands[rng.random_range(0..cands.len())]
            } else if rng.random_bool(0.5) {
                5000
            } else {
                5001
            };
            let ev = w.connect(h, fam, &da, dp);
            if ev["res"] == "Ok" {
                let (cs, ks) = (ev["csid"].as_u64().unwrap() as usize, ev["ksid"].as_u64().unwrap() as usize);
                m.pairs.push((cs, ks));
                m.accepted_by.insert(ks, ev["acc"].as_u64().unwrap() as usize);
                // the server-side child is a live socket bound to the address it was accepted on
                let th = w.socks[ks - 1].host;
                m.bound.push((ks, th, fam, ev["cha"].as_str().unwrap().to_string(), ev["chp"].as_u64().unwrap() as u16));
            }
        }
        // probes in the post-state: mostly aimed at (an address leading to) a live socket's port
        for _ in 0..probes {
            let mut from = rng.random_range(1..=n);
            let mut fam = fams[rng.random_range(0..2)];
            let mut da = all_addrs[rng.random_range(0..all_addrs.len())].to_string();
            let mut dp = m.ports_seen[rng.random_range(0..m.ports_seen.len())];
            if !m.bound.is_empty() && rng.random_bool(0.75) {
                let b = &m.bound[rng.random_range(0..m.bound.len())];
                dp = b.4;
                if rng.random_bool(0.85) {
                    fam = b.2;
                }
                let own = host_addr_names(b.1);
                da = match rng.random_range(0..10) {
                    0..=4 => {
                        if b.3 == "wild" || b.3 == "lo" {
                            own[rng.random_range(0..2)].to_string()
                        } else {
                            b.3.clone()
                        }
                    }
                    5..=6 => own[rng.random_range(0..2)].to_string(),
                    7..=8 => {
                        from = b.1;
                        "lo".to_string()
                    }
                    _ => da,
                };
            }
            match rng.random_range(0..10) {
                0..=4 => {
                    w.probe_udp(from, fam, &da, dp);
                }
                5..=7 => {
                    // loopback / own-address traffic never is on the wire
                    if da == "lo" || owner(&da) == from {
                        from = from % n + 1;
                    }
                    if da != "lo" && owner(&da) != from {
                        w.probe_syn(from, fam, first_addr(from), SYN_PORT, &da, dp);
                    }
                }
                8 => {
                    if !m.pairs.is_empty() {
                        let p = m.pairs[rng.random_range(0..m.pairs.len())];
                        w.probe_data(if rng.random_bool(0.5) { p.0 } else { p.1 });
                    }
                }
                _ => {
                    // SYN re-using the 4-tuple of an established connection
                    if !m.pairs.is_empty() {
                        let p = m.pairs[rng.random_range(0..m.pairs.len())];
                        let s = if rng.random_bool(0.5) { p.0 } else { p.1 };
                        if let (Some((la, lp)), Some((pa, pp))) = (w.stream_local(s), w.stream_peer(s)) {
                            if la != "lo" && pa != "lo" && owner(&pa) != w.socks[s - 1].host {
                                let fam = if ip_is_v4(&w, s) { 4 } else { 6 };
                                let hh = w.socks[s - 1].host;
                                w.probe_syn(hh, fam, &la, lp, &pa, pp);
                            }
                        }
                    }
                }
            }
        }
    }
    all.extend(w.teardown());
}

fn owner(a: &str) -> usize {
    match a.as_bytes()[0] {
        b'a' => 1,
        b'b' => 2,
        b'c' => 3,
        _ => 0,
    }
}

fn main_random(args: &[String]) {
    let seed = util::arg_u64(args, "seed", 1);
    let runs = util::arg_u64(args, "runs", 20);
    let n = util::arg_u64(args, "n", 2) as usize;
    let ops = util::arg_u64(args, "ops", 12) as usize;
    let probes = util::arg_u64(args, "probes", 12) as usize;
    let out = util::arg(args, "out").expect("out=");
    let mut all = Vec::new();
    for r in 0..runs {
        let mut rng = StdRng::seed_from_u64(seed.wrapping_mul(1_000_003).wrapping_add(r));
        random_run(&mut rng, n, ops, probes, &mut all);
    }
    util::write_ndjson(&out, &all);
    println!("runs={runs} events={}", all.len());
}

/// The real allocator on the real range: all but `free` ports of the range are
/// occupied by a block of explicit binds, then port-0 binds / closes / probes
/// drive the cursor through wrap-around and exhaustion.
fn main_exhaust(args: &[String]) {
    let seed = util::arg_u64(args, "seed", 1);
    let ops = util::arg_u64(args, "ops", 40);
    let out = util::arg(args, "out").expect("out=");
    let mut rng = StdRng::seed_from_u64(seed);
    let mut all = Vec::new();
    for proto in ["udp", "tcp"] {
        let mut w = World::new(2, &[4], true);
        let free = 3 + rng.random_range(0..3) as u16; // 3..5 free ports at the bottom of the range
        let ok = w.fill(1, proto, 4, "lo", EPH_LO + free, EPH_HI);
        assert!(ok, "fill");
        let mut live: Vec<usize> = Vec::new();
        let addrs = ["wild", "lo", "a1", "a2"];
        // fixed prologue: take every free port; free the one handed out last (it sits right behind
        // the cursor) and ask again - exactly one port is free, no failed attempt in between;
        // free the one handed out first and ask again (the scan has to wrap around); ask once
        // more (exhausted); free a middle one and ask after the failed attempt
        for _ in 0..free {
            let (res, _, sid) = w.bind(1, proto, 4, addrs[rng.random_range(0..addrs.len())], 0);
            if res == "Ok" {
                live.push(sid);
            }
        }
        for pick in ["last", "first", "none", "middle"] {
            let idx = match pick {
                "last" => live.len().checked_sub(1),
                "first" => if live.is_empty() { None } else { Some(0) },
                "middle" => if live.is_empty() { None } else { Some(live.len() / 2) },
                _ => None,
            };
            if let Some(i) = idx {
                let s = live.remove(i);
                w.close(&[s]);
            }
            let (res, _, sid) = w.bind(1, proto, 4, addrs[rng.random_range(0..addrs.len())], 0);
            if res == "Ok" {
                live.push(sid);
            }
            let da = ["a1", "a2"][rng.random_range(0..2)];
            let dp = EPH_LO + rng.random_range(0..free);
            if proto == "udp" {
                w.probe_udp(2, 4, da, dp);
            } else {
                w.probe_syn(2, 4, "b1", SYN_PORT, da, dp);
            }
        }
        for _ in 0..ops {
            let r = rng.random_range(0..10);
            if r < 6 {
                let addr = addrs[rng.random_range(0..addrs.len())];
                let (res, _, sid) = w.bind(1, proto, 4, addr, 0);
                if res == "Ok" {
                    live.push(sid);
                }
            } else if r < 9 {
                if !live.is_empty() {
                    // mostly the socket bound last: its port is the one right behind the cursor
                    let i = if rng.random_bool(0.5) { live.len() - 1 } else { rng.random_range(0..live.len()) };
                    let s = live.remove(i);
                    w.close(&[s]);
                }
            } else {
                let p = EPH_LO + rng.random_range(0..free);
                let addr = addrs[rng.random_range(0..addrs.len())];
                let (res, _, sid) = w.bind(1, proto, 4, addr, p);
                if res == "Ok" {
                    live.push(sid);
                }
            }
            let dp = EPH_LO + rng.random_range(0..free);
            let da = ["lo", "a1", "a2"][rng.random_range(0..3)];
            if proto == "udp" {
                w.probe_udp(rng.random_range(1..=2), 4, da, dp);
            } else if da != "lo" {
                w.probe_syn(2, 4, "b1", SYN_PORT, da, dp);
            }
        }
        all.extend(w.teardown());
    }
    // Loopback aliases: every address of 127.0.0.0/8 is local, and "exact address before the wildcard"
    // distinguishes 127.0.0.1 from 127.0.0.2.  Sockets on the same port at "lo", "lo2" and/or the wildcard;
    // datagrams to either loopback address from the host itself and (never deliverable) from the other host;
    // again after the "lo2" socket was closed.
    for (first, second) in [("lo", "lo2"), ("lo2", "lo"), ("wild", "lo2"), ("lo2", "wild")] {
        let mut w = World::new(2, &[4], true);
        let (_, _, _s1) = w.bind(1, "udp", 4, first, 5000);
        let (_, _, s2) = w.bind(1, "udp", 4, second, 5000);
        let (_, _, _s3) = w.bind(1, "udp", 4, "lo2", 5001);
        for da in ["lo2", "lo", "a1"] {
            w.probe_udp(1, 4, da, 5000);
            w.probe_udp(1, 4, da, 5001);
        }
        w.probe_udp(2, 4, "lo2", 5000);
        let lo2_sock = if second == "lo2" { s2 } else { _s1 };
        if lo2_sock != 0 {
            // (0: the bind was refused - wildcard and specific address conflict on one port)
            w.close(&[lo2_sock]);
        }
        for da in ["lo2", "lo"] {
            w.probe_udp(1, 4, da, 5000);
        }
        all.extend(w.teardown());
    }
    util::write_ndjson(&out, &all);
    println!("runs=6 events={}", all.len());
}

fn main() {
    let args: Vec<String> = std::env::args().skip(1).collect();
    match args.first().map(|s| s.as_str()) {
        Some("replay") => main_replay(&args[1..]),
        Some("random") => main_random(&args[1..]),
        Some("exhaust") => main_exhaust(&args[1..]),
        _ => {
            eprintln!("usage: ksock replay|random|exhaust key=value...");
            std::process::exit(2);
        }
    }
}
