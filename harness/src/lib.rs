//! Shared helpers for the verification harness binaries.
//!
//! * `rec`  – a thread-local NDJSON event recorder and a `tracing::Subscriber`
//!   that captures the events turmoil emits at its linearization points
//!   (target `turmoil`) and the guarded verification hooks (target
//!   `turmoil_verif`).
//! * `util` – small helpers shared by the drivers (seeded rng, arg parsing,
//!   hex payload parsing, panic capture).

pub mod rec {
    use serde_json::{json, Map, Value};
    use std::cell::RefCell;
    use std::fmt::Debug;
    use tracing::field::{Field, Visit};
    use tracing::span::{Attributes, Id, Record};
    use tracing::{Event, Metadata, Subscriber};

    thread_local! {
        static EVENTS: RefCell<Vec<Value>> = const { RefCell::new(Vec::new()) };
    }

    /// Append one record to the thread-local trace.
    pub fn emit(v: Value) {
        EVENTS.with(|e| e.borrow_mut().push(v));
    }

    /// Take everything recorded so far.
    pub fn take() -> Vec<Value> {
        EVENTS.with(|e| std::mem::take(&mut *e.borrow_mut()))
    }

    pub fn len() -> usize {
        EVENTS.with(|e| e.borrow().len())
    }

    struct V(Map<String, Value>);
    impl Visit for V {
        fn record_debug(&mut self, field: &Field, value: &dyn Debug) {
            self.0
                .insert(field.name().to_string(), Value::String(format!("{value:?}")));
        }
        fn record_u64(&mut self, field: &Field, value: u64) {
            self.0.insert(field.name().to_string(), json!(value));
        }
        fn record_i64(&mut self, field: &Field, value: i64) {
            self.0.insert(field.name().to_string(), json!(value));
        }
        fn record_bool(&mut self, field: &Field, value: bool) {
            self.0.insert(field.name().to_string(), json!(value));
        }
        fn record_str(&mut self, field: &Field, value: &str) {
            self.0
                .insert(field.name().to_string(), Value::String(value.to_string()));
        }
    }

    /// Captures every event with target `turmoil` / `turmoil_verif` as
    /// `{"ev":"t", "target":…, "message":…, <fields>}`.
    pub struct Recorder;

    impl Subscriber for Recorder {
        fn enabled(&self, m: &Metadata<'_>) -> bool {
            m.target() == "turmoil" || m.target() == "turmoil_verif"
        }
        fn new_span(&self, _: &Attributes<'_>) -> Id {
            Id::from_u64(1)
        }
        fn record(&self, _: &Id, _: &Record<'_>) {}
        fn record_follows_from(&self, _: &Id, _: &Id) {}
        fn event(&self, event: &Event<'_>) {
            let mut v = V(Map::new());
            event.record(&mut v);
            v.0.insert("ev".into(), Value::String("t".into()));
            v.0.insert(
                "target".into(),
                Value::String(event.metadata().target().to_string()),
            );
            emit(Value::Object(v.0));
        }
        fn enter(&self, _: &Id) {}
        fn exit(&self, _: &Id) {}
    }

    /// Run `f` with the recorder installed as the default subscriber.
    pub fn with_recorder<R>(f: impl FnOnce() -> R) -> R {
        tracing::subscriber::with_default(Recorder, f)
    }
}

pub mod util {
    use serde_json::Value;
    use std::io::Write;

    /// Parse `UDP [0x1, 0x2]` / `TCP [0xA]` (turmoil's Display of a payload)
    /// into the bytes. Returns None for `TCP SYN`, `TCP FIN`, `TCP RST`.
    pub fn parse_hex_payload(s: &str) -> Option<Vec<u8>> {
        let open = s.find('[')?;
        let close = s.rfind(']')?;
        let inner = &s[open + 1..close];
        let mut out = Vec::new();
        for tok in inner.split(',') {
            let t = tok.trim();
            if t.is_empty() {
                continue;
            }
            let t = t.trim_start_matches("0x").trim_start_matches("0X");
            out.push(u8::from_str_radix(t, 16).ok()?);
        }
        Some(out)
    }

    /// `key=value` style argument lookup.
    pub fn arg(args: &[String], key: &str) -> Option<String> {
        let pre = format!("{key}=");
        args.iter()
            .find(|a| a.starts_with(&pre))
            .map(|a| a[pre.len()..].to_string())
    }

    pub fn arg_u64(args: &[String], key: &str, default: u64) -> u64 {
        arg(args, key)
            .and_then(|v| v.parse().ok())
            .unwrap_or(default)
    }

    pub fn write_ndjson(path: &str, lines: &[Value]) {
        let mut f = std::io::BufWriter::new(std::fs::File::create(path).expect("create trace"));
        for l in lines {
            serde_json::to_writer(&mut f, l).unwrap();
            f.write_all(b"\n").unwrap();
        }
    }

    /// Run `f`, turning a panic into `Err(message)`. The default panic hook is
    /// silenced while `f` runs so expected panics do not pollute the output.
    pub fn catch<R>(f: impl FnOnce() -> R) -> Result<R, String> {
        let prev = std::panic::take_hook();
        std::panic::set_hook(Box::new(|_| {}));
        let r = std::panic::catch_unwind(std::panic::AssertUnwindSafe(f));
        std::panic::set_hook(prev);
        r.map_err(|e| {
            if let Some(s) = e.downcast_ref::<&str>() {
                s.to_string()
            } else if let Some(s) = e.downcast_ref::<String>() {
                s.clone()
            } else {
                "panic".to_string()
            }
        })
    }
}
